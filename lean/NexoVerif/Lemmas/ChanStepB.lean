import NexoVerif.Lemmas.ChanStep
namespace NexoVerif.Chan
set_option linter.unusedSimpArgs false
set_option linter.unusedVariables false
set_option maxHeartbeats 4000000

/-- a step of the receiver that leaves the senders and the wait set alone -/
theorem inv_receiver_local (s s' : St) (h : Inv s) (hn : s'.n = s.n) (hcap : s'.cap = s.cap)
    (hspc : s'.spc = s.spc) (hins : s'.inset = s.inset) (hcpc : s'.cpc = s.cpc) (hclosed : s'.closed = s.closed)
    (hocc : s'.occ ≤ s'.cap) (hmsgs : s'.msgs + rborrow s' ≤ s'.occ)
    (hs : s.occ + rtoken s ≤ s'.occ + rtoken s')
    (hr : RSleeping s' → (RSleeping s ∧ s'.msgs ≤ s.msgs) ∨ s'.msgs = 0) : Inv s' := by
  have hH : holders s' = holders s := holders_same s s' hn (fun j _ => by rw [hspc, hins]; exact ⟨rfl, rfl⟩)
  have hP : pushers s' = pushers s := pushers_same s s' hn (fun j _ => by rw [hspc])
  refine ⟨hocc, hmsgs, ?_, ?_, ?_, by rw [hcpc, hclosed]; exact h.cpcClosed, ?_⟩
  rotate_right
  · intro hcl hcp j hsl
    rw [hclosed] at hcl; rw [hcpc] at hcp
    obtain ⟨hj, hp, hb⟩ := hsl
    exact h.noSleepAfterClose hcl hcp j ⟨by rw [← hn]; exact hj, by rw [← hspc]; exact hp, by rw [← hins]; exact hb⟩
  · intro j hj hp; rw [hn] at hj; rw [hspc] at hp; rw [hins]; exact h.notInset j hj hp
  · rintro ⟨j, hj, hp, hb⟩
    have := h.senders ⟨j, by rw [← hn]; exact hj, by rw [← hspc]; exact hp, by rw [← hins]; exact hb⟩
    have hct : ctoken s' = ctoken s := by unfold ctoken; rw [hcpc, hcap]
    rw [hcap, hH, hct]; omega
  · intro hsl
    rcases hr hsl with ⟨hsl0, hle⟩ | h0
    · have := h.receiver hsl0; omega
    · omega

theorem noSleep_mono (s s' : St) (h : Inv s) (hclosed : s'.closed = s.closed) (hcpc : s'.cpc = s.cpc)
    (hsub : ∀ j, Sleeping s' j → Sleeping s j) : s'.closed = true → s'.cpc = false → ∀ i, ¬ Sleeping s' i := by
  intro hcl hcp j hsl
  rw [hclosed] at hcl; rw [hcpc] at hcp
  exact h.noSleepAfterClose hcl hcp j (hsub j hsl)

theorem holder_le_one (p : SPc) (b : Bool) : holder p b ≤ 1 := by unfold holder; split <;> omega
theorem pusher_le_one (p : SPc) : pusher p ≤ 1 := by unfold pusher; split <;> omega

theorem inv_step (l : Label) (s s' : St) (h : Inv s) (ha : s.always = true) (hs : step l s = some s') : Inv s' := by
  have hoc := h.occLe
  have hml := h.msgsLe
  cases l with
  | sBegin i =>
    simp only [step] at hs
    split at hs
    · rename_i hc
      obtain ⟨hi, hpc⟩ := hc
      simp only [Option.some.injEq] at hs; subst hs
      have hb := h.notInset i hi (Or.inl hpc)
      refine inv_sender_local s _ i h hi rfl rfl (fun j _ hji => by simp [upd_other _ _ hji]) rfl rfl rfl hoc (Nat.le_refl _)
        (fun _ => hb) ⟨?_, ?_⟩ ⟨fun x => x, ?_⟩
      · rintro ⟨_, hp, _⟩; simp at hp
      · left; simp [hpc, hb, holder]
      · intro _; simp [hpc, pusher]
    · simp at hs
  | sRepoll i =>
    simp only [step] at hs
    split at hs
    · rename_i hc
      obtain ⟨hi, hpc⟩ := hc
      simp only [Option.some.injEq] at hs; subst hs
      refine inv_sender_local s _ i h hi rfl rfl (fun j _ hji => by simp [upd_other _ _ hji]) rfl rfl rfl hoc (Nat.le_refl _)
        (fun hp => by simp at hp) ⟨?_, ?_⟩ ⟨fun x => x, ?_⟩
      · rintro ⟨_, hp, _⟩; simp at hp
      · left; simp [hpc, holder]
      · intro _; simp [hpc, pusher]
    · simp at hs
  | sRemove i =>
    simp only [step] at hs
    split at hs
    · rename_i hc
      obtain ⟨hi, hpc⟩ := hc
      simp only [Option.some.injEq] at hs; subst hs
      refine inv_sender_local s _ i h hi rfl rfl (fun j _ hji => by simp [upd_other _ _ hji]) rfl rfl rfl hoc (Nat.le_refl _)
        (fun _ => by simp) ⟨?_, ?_⟩ ⟨fun x => x, ?_⟩
      · rintro ⟨_, hp, _⟩; simp at hp
      · left; simp [hpc, holder]; split <;> omega
      · intro _; simp [hpc, pusher]
    · simp at hs
  | sTry1 i =>
    simp only [step] at hs
    split at hs
    · rename_i hc
      obtain ⟨hi, hpc, _⟩ := hc
      have hb := h.notInset i hi (Or.inr (Or.inl hpc))
      split at hs
      · rename_i hroom
        simp only [Option.some.injEq] at hs; subst hs
        refine inv_sender_local s _ i h hi rfl rfl (fun j _ hji => by simp [upd_other _ _ hji]) rfl rfl rfl
          (by show s.occ + 1 ≤ s.cap; omega) (by show s.msgs + 1 + s.occ ≤ s.msgs + (s.occ + 1); omega)
          (fun _ => by simp [hb]) ⟨?_, ?_⟩ ⟨fun x => x, ?_⟩
        · rintro ⟨_, hp, _⟩; simp at hp
        · left; simp [hpc, hb, holder]
        · intro _; simp [hpc, pusher]
      · rename_i hfull
        simp only [Option.some.injEq] at hs; subst hs
        refine inv_sender_local s _ i h hi rfl rfl (fun j _ hji => by simp [upd_other _ _ hji]) rfl rfl rfl hoc (Nat.le_refl _)
          (fun _ => by simp [hb]) ⟨?_, ?_⟩ ⟨fun x => x, ?_⟩
        · rintro ⟨_, hp, _⟩; simp at hp
        · right; left; show s.occ = s.cap; omega
        · intro _; simp [hpc, pusher]
    · simp at hs
  | sInsert i =>
    simp only [step] at hs
    split at hs
    · rename_i hc
      obtain ⟨hi, hpc⟩ := hc
      have hb := h.notInset i hi (Or.inr (Or.inr (Or.inl hpc)))
      simp only [Option.some.injEq] at hs; subst hs
      refine inv_sender_local s _ i h hi rfl rfl (fun j _ hji => by simp [upd_other _ _ hji]) rfl rfl rfl hoc (Nat.le_refl _)
        (fun hp => by simp at hp) ⟨?_, ?_⟩ ⟨fun x => x, ?_⟩
      · rintro ⟨_, hp, _⟩; simp at hp
      · left; simp [hpc, hb, holder]
      · intro _; simp [hpc, pusher]
    · simp at hs
  | sTry2 i =>
    simp only [step] at hs
    split at hs
    · rename_i hc
      obtain ⟨hi, hpc, _⟩ := hc
      split at hs
      · rename_i hroom
        simp only [Option.some.injEq] at hs; subst hs
        refine inv_sender_local s _ i h hi rfl rfl (fun j _ hji => by simp [upd_other _ _ hji]) rfl rfl rfl
          (by show s.occ + 1 ≤ s.cap; omega) (by show s.msgs + 1 + s.occ ≤ s.msgs + (s.occ + 1); omega)
          (fun hp => by simp at hp) ⟨?_, ?_⟩ ⟨fun x => x, ?_⟩
        · rintro ⟨_, hp, _⟩; simp at hp
        · left; simp [hpc, holder]
        · intro _; simp [hpc, pusher]
      · rename_i hfull
        simp only [Option.some.injEq] at hs; subst hs
        refine inv_sender_local s _ i h hi rfl rfl (fun j _ hji => by simp [upd_other _ _ hji]) rfl rfl rfl hoc (Nat.le_refl _)
          (fun hp => by simp at hp) ⟨?_, ?_⟩ ⟨fun x => x, ?_⟩
        · intro _; exact ⟨Or.inr (by assumption), by show s.occ = s.cap; omega⟩
        · right; left; show s.occ = s.cap; omega
        · intro _; simp [hpc, pusher]
    · simp at hs
  | sCancel i k =>
    simp only [step] at hs
    split at hs
    · rename_i hc
      obtain ⟨hi, hpc⟩ := hc
      split at hs
      · rename_i hin
        simp only [Option.some.injEq] at hs; subst hs
        refine inv_sender_local s _ i h hi rfl rfl (fun j _ hji => by simp [upd_other _ _ hji]) rfl rfl rfl hoc (Nat.le_refl _)
          (fun _ => by simp) ⟨?_, ?_⟩ ⟨fun x => x, ?_⟩
        · rintro ⟨_, hp, _⟩; simp at hp
        · left; simp [hpc, hin, holder]
        · intro _; simp [hpc, pusher]
      · rename_i hnin
        have hnin' : s.inset i = false := by cases hb : s.inset i <;> simp_all
        split at hs
        · -- nobody is in the wait set: nobody sleeps
          rename_i hempty
          simp only [Option.some.injEq] at hs; subst hs
          have hH := holders_upd1 s { s with spc := upd s.spc i .notifyRecv } i hi rfl
            (fun j _ hji => by simp [upd_other _ _ hji])
          have hP := pushers_upd1 s { s with spc := upd s.spc i .notifyRecv } i hi rfl
            (fun j _ hji => by simp [upd_other _ _ hji])
          refine ⟨hoc, hml, ?_, ?_, ?_, h.cpcClosed, noSleep_mono s _ h rfl rfl (fun j hsl => by
            unfold Sleeping at hsl ⊢; grind [upd])⟩
          · intro j hj hp
            by_cases hji : j = i
            · subst hji; exact hnin'
            · simp only [upd_other _ _ hji] at hp; exact h.notInset j hj hp
          · rintro ⟨j, hj, _, hb⟩
            have := hempty j hj
            simp_all
          · rintro ⟨hp, hreg⟩
            have := h.receiver ⟨hp, hreg⟩
            simp [hpc, pusher] at hP
            show s.msgs ≤ pushers _
            omega
        · split at hs
          · rename_i hk
            obtain ⟨hk, hkin⟩ := hk
            simp only [Option.some.injEq] at hs; subst hs
            have hik : i ≠ k := by intro e; subst e; rw [hnin'] at hkin; cases hkin
            have hH := holders_upd2 s { s with inset := upd s.inset k false, spc := upd s.spc i .notifyRecv } i k hi hk hik rfl
              (fun j _ hji hjk => by simp [upd_other _ _ hji, upd_other _ _ hjk])
            have hP := pushers_upd1 s { s with inset := upd s.inset k false, spc := upd s.spc i .notifyRecv } i hi rfl
              (fun j _ hji => by simp [upd_other _ _ hji])
            -- the notifier that is popped belongs to a sender that will look again
            have hkpc : s.spc k = .rm ∨ s.spc k = .try2 ∨ s.spc k = .cancel ∨ s.spc k = .pending ∨ s.spc k = .cancelErr := by
              have := h.notInset k hk
              cases hp : s.spc k <;> simp_all
            refine ⟨hoc, hml, ?_, ?_, ?_, h.cpcClosed, noSleep_mono s _ h rfl rfl (fun j hsl => by
            unfold Sleeping at hsl ⊢; grind [upd])⟩
            · intro j hj hp
              by_cases hji : j = i
              · subst hji; simp only [upd_other _ _ hik]; exact hnin'
              · simp only [upd_other _ _ hji] at hp
                by_cases hjk : j = k
                · subst hjk; simp
                · simp only [upd_other _ _ hjk]; exact h.notInset j hj hp
            · rintro ⟨j, hj, hp, hb⟩
              have hjk : j ≠ k := by intro e; subst e; simp at hb
              have hji : j ≠ i := by intro e; subst e; simp at hp
              simp only [upd_other _ _ hji] at hp
              simp only [upd_other _ _ hjk] at hb
              have := h.senders ⟨j, hj, hp, hb⟩
              have e1 : holder (s.spc i) (s.inset i) = 1 := by simp [hpc, hnin', holder]
              have e2 : holder (s.spc k) (s.inset k) = 0 := by simp [hkin, holder]
              have e3 : holder (upd s.spc i SPc.notifyRecv i) (upd s.inset k false i) = 0 := by simp [holder]
              have e4 : holder (upd s.spc i SPc.notifyRecv k) (upd s.inset k false k) = 1 := by
                simp only [upd_other _ _ (Ne.symm hik), upd_same]
                rcases hkpc with e | e | e | e | e <;> simp [e, holder]
              simp only [e1, e2, e3, e4] at hH
              show s.cap ≤ s.occ + rtoken s + ctoken s + holders _
              omega
            · rintro ⟨hp, hreg⟩
              have := h.receiver ⟨hp, hreg⟩
              simp [hpc, pusher] at hP
              show s.msgs ≤ pushers _
              omega
          · simp at hs
    · simp at hs
  | sDrop i k =>
    simp only [step] at hs
    split at hs
    · rename_i hc
      obtain ⟨hi, hpc⟩ := hc
      split at hs
      · rename_i hin
        simp only [Option.some.injEq] at hs; subst hs
        refine inv_sender_local s _ i h hi rfl rfl (fun j _ hji => by simp [upd_other _ _ hji]) rfl rfl rfl hoc (Nat.le_refl _)
          (fun _ => by simp) ⟨?_, ?_⟩ ⟨fun x => x, ?_⟩
        · rintro ⟨_, hp, _⟩; simp at hp
        · left; simp [hpc, hin, holder]
        · intro _; simp [hpc, pusher]
      · rename_i hnin
        have hnin' : s.inset i = false := by cases hb : s.inset i <;> simp_all
        split at hs
        · -- nobody is in the wait set: nobody sleeps
          rename_i hempty
          simp only [Option.some.injEq] at hs; subst hs
          have hH := holders_upd1 s { s with spc := upd s.spc i .idle } i hi rfl
            (fun j _ hji => by simp [upd_other _ _ hji])
          have hP := pushers_upd1 s { s with spc := upd s.spc i .idle } i hi rfl
            (fun j _ hji => by simp [upd_other _ _ hji])
          refine ⟨hoc, hml, ?_, ?_, ?_, h.cpcClosed, noSleep_mono s _ h rfl rfl (fun j hsl => by
            unfold Sleeping at hsl ⊢; grind [upd])⟩
          · intro j hj hp
            by_cases hji : j = i
            · subst hji; exact hnin'
            · simp only [upd_other _ _ hji] at hp; exact h.notInset j hj hp
          · rintro ⟨j, hj, _, hb⟩
            have := hempty j hj
            simp_all
          · rintro ⟨hp, hreg⟩
            have := h.receiver ⟨hp, hreg⟩
            simp [hpc, pusher] at hP
            show s.msgs ≤ pushers _
            omega
        · split at hs
          · rename_i hk
            obtain ⟨hk, hkin⟩ := hk
            simp only [Option.some.injEq] at hs; subst hs
            have hik : i ≠ k := by intro e; subst e; rw [hnin'] at hkin; cases hkin
            have hH := holders_upd2 s { s with inset := upd s.inset k false, spc := upd s.spc i .idle } i k hi hk hik rfl
              (fun j _ hji hjk => by simp [upd_other _ _ hji, upd_other _ _ hjk])
            have hP := pushers_upd1 s { s with inset := upd s.inset k false, spc := upd s.spc i .idle } i hi rfl
              (fun j _ hji => by simp [upd_other _ _ hji])
            -- the notifier that is popped belongs to a sender that will look again
            have hkpc : s.spc k = .rm ∨ s.spc k = .try2 ∨ s.spc k = .cancel ∨ s.spc k = .pending ∨ s.spc k = .cancelErr := by
              have := h.notInset k hk
              cases hp : s.spc k <;> simp_all
            refine ⟨hoc, hml, ?_, ?_, ?_, h.cpcClosed, noSleep_mono s _ h rfl rfl (fun j hsl => by
            unfold Sleeping at hsl ⊢; grind [upd])⟩
            · intro j hj hp
              by_cases hji : j = i
              · subst hji; simp only [upd_other _ _ hik]; exact hnin'
              · simp only [upd_other _ _ hji] at hp
                by_cases hjk : j = k
                · subst hjk; simp
                · simp only [upd_other _ _ hjk]; exact h.notInset j hj hp
            · rintro ⟨j, hj, hp, hb⟩
              have hjk : j ≠ k := by intro e; subst e; simp at hb
              have hji : j ≠ i := by intro e; subst e; simp at hp
              simp only [upd_other _ _ hji] at hp
              simp only [upd_other _ _ hjk] at hb
              have := h.senders ⟨j, hj, hp, hb⟩
              have e1 : holder (s.spc i) (s.inset i) = 1 := by simp [hpc, hnin', holder]
              have e2 : holder (s.spc k) (s.inset k) = 0 := by simp [hkin, holder]
              have e3 : holder (upd s.spc i SPc.idle i) (upd s.inset k false i) = 0 := by simp [holder]
              have e4 : holder (upd s.spc i SPc.idle k) (upd s.inset k false k) = 1 := by
                simp only [upd_other _ _ (Ne.symm hik), upd_same]
                rcases hkpc with e | e | e | e | e <;> simp [e, holder]
              simp only [e1, e2, e3, e4] at hH
              show s.cap ≤ s.occ + rtoken s + ctoken s + holders _
              omega
            · rintro ⟨hp, hreg⟩
              have := h.receiver ⟨hp, hreg⟩
              simp [hpc, pusher] at hP
              show s.msgs ≤ pushers _
              omega
          · simp at hs
    · simp at hs
  | sTry1Closed i =>
    simp only [step] at hs
    split at hs
    · rename_i hc
      obtain ⟨hi, hpc, hcl⟩ := hc
      have hb := h.notInset i hi (Or.inr (Or.inl hpc))
      simp only [Option.some.injEq] at hs; subst hs
      refine inv_sender_local s _ i h hi rfl rfl (fun j _ hji => by simp [upd_other _ _ hji]) rfl rfl rfl hoc (Nat.le_refl _)
        (fun _ => hb) ⟨?_, ?_⟩ ⟨fun x => x, ?_⟩
      · rintro ⟨_, hp, _⟩; simp at hp
      · -- the queue is closed: the closing thread is about to wake everybody, or has done so and nobody sleeps
        right; right
        cases hcp : s.cpc with
        | true => exact Or.inl rfl
        | false => exact Or.inr ⟨hcl, rfl⟩
      · intro _; simp [hpc, pusher]
    · simp at hs
  | sTry2Closed i =>
    simp only [step] at hs
    split at hs
    · rename_i hc
      obtain ⟨hi, hpc, hcl⟩ := hc
      simp only [Option.some.injEq] at hs; subst hs
      refine inv_sender_local s _ i h hi rfl rfl (fun j _ hji => by simp [upd_other _ _ hji]) rfl rfl rfl hoc (Nat.le_refl _)
        (fun hp => by simp at hp) ⟨?_, ?_⟩ ⟨fun x => x, ?_⟩
      · rintro ⟨_, hp, _⟩; simp at hp
      · left; simp [hpc, holder]
      · intro _; simp [hpc, pusher]
    · simp at hs
  | sCancelErr i k =>
    simp only [step] at hs
    split at hs
    · rename_i hc
      obtain ⟨hi, hpc⟩ := hc
      split at hs
      · rename_i hin
        simp only [Option.some.injEq] at hs; subst hs
        refine inv_sender_local s _ i h hi rfl rfl (fun j _ hji => by simp [upd_other _ _ hji]) rfl rfl rfl hoc (Nat.le_refl _)
          (fun _ => by simp) ⟨?_, ?_⟩ ⟨fun x => x, ?_⟩
        · rintro ⟨_, hp, _⟩; simp at hp
        · left; simp [hpc, hin, holder]
        · intro _; simp [hpc, pusher]
      · rename_i hnin
        have hnin' : s.inset i = false := by cases hb : s.inset i <;> simp_all
        split at hs
        · -- nobody is in the wait set: nobody sleeps
          rename_i hempty
          simp only [Option.some.injEq] at hs; subst hs
          have hH := holders_upd1 s { s with spc := upd s.spc i .idle } i hi rfl
            (fun j _ hji => by simp [upd_other _ _ hji])
          have hP := pushers_upd1 s { s with spc := upd s.spc i .idle } i hi rfl
            (fun j _ hji => by simp [upd_other _ _ hji])
          refine ⟨hoc, hml, ?_, ?_, ?_, h.cpcClosed, noSleep_mono s _ h rfl rfl (fun j hsl => by
            unfold Sleeping at hsl ⊢; grind [upd])⟩
          · intro j hj hp
            by_cases hji : j = i
            · subst hji; exact hnin'
            · simp only [upd_other _ _ hji] at hp; exact h.notInset j hj hp
          · rintro ⟨j, hj, _, hb⟩
            have := hempty j hj
            simp_all
          · rintro ⟨hp, hreg⟩
            have := h.receiver ⟨hp, hreg⟩
            simp [hpc, pusher] at hP
            show s.msgs ≤ pushers _
            omega
        · split at hs
          · rename_i hk
            obtain ⟨hk, hkin⟩ := hk
            simp only [Option.some.injEq] at hs; subst hs
            have hik : i ≠ k := by intro e; subst e; rw [hnin'] at hkin; cases hkin
            have hH := holders_upd2 s { s with inset := upd s.inset k false, spc := upd s.spc i .idle } i k hi hk hik rfl
              (fun j _ hji hjk => by simp [upd_other _ _ hji, upd_other _ _ hjk])
            have hP := pushers_upd1 s { s with inset := upd s.inset k false, spc := upd s.spc i .idle } i hi rfl
              (fun j _ hji => by simp [upd_other _ _ hji])
            -- the notifier that is popped belongs to a sender that will look again
            have hkpc : s.spc k = .rm ∨ s.spc k = .try2 ∨ s.spc k = .cancel ∨ s.spc k = .pending ∨ s.spc k = .cancelErr := by
              have := h.notInset k hk
              cases hp : s.spc k <;> simp_all
            refine ⟨hoc, hml, ?_, ?_, ?_, h.cpcClosed, noSleep_mono s _ h rfl rfl (fun j hsl => by
            unfold Sleeping at hsl ⊢; grind [upd])⟩
            · intro j hj hp
              by_cases hji : j = i
              · subst hji; simp only [upd_other _ _ hik]; exact hnin'
              · simp only [upd_other _ _ hji] at hp
                by_cases hjk : j = k
                · subst hjk; simp
                · simp only [upd_other _ _ hjk]; exact h.notInset j hj hp
            · rintro ⟨j, hj, hp, hb⟩
              have hjk : j ≠ k := by intro e; subst e; simp at hb
              have hji : j ≠ i := by intro e; subst e; simp at hp
              simp only [upd_other _ _ hji] at hp
              simp only [upd_other _ _ hjk] at hb
              have := h.senders ⟨j, hj, hp, hb⟩
              have e1 : holder (s.spc i) (s.inset i) = 1 := by simp [hpc, hnin', holder]
              have e2 : holder (s.spc k) (s.inset k) = 0 := by simp [hkin, holder]
              have e3 : holder (upd s.spc i SPc.idle i) (upd s.inset k false i) = 0 := by simp [holder]
              have e4 : holder (upd s.spc i SPc.idle k) (upd s.inset k false k) = 1 := by
                simp only [upd_other _ _ (Ne.symm hik), upd_same]
                rcases hkpc with e | e | e | e | e <;> simp [e, holder]
              simp only [e1, e2, e3, e4] at hH
              show s.cap ≤ s.occ + rtoken s + ctoken s + holders _
              omega
            · rintro ⟨hp, hreg⟩
              have := h.receiver ⟨hp, hreg⟩
              simp [hpc, pusher] at hP
              show s.msgs ≤ pushers _
              omega
          · simp at hs
    · simp at hs
  | closeQ =>
    simp only [step] at hs
    split at hs
    · rename_i hc
      simp only [Option.some.injEq] at hs; subst hs
      have hH : holders { s with closed := true, cpc := true } = holders s := holders_same s _ rfl (fun _ _ => ⟨rfl, rfl⟩)
      have hP : pushers { s with closed := true, cpc := true } = pushers s := pushers_same s _ rfl (fun _ _ => rfl)
      refine ⟨hoc, hml, h.notInset, ?_, ?_, fun _ => rfl, fun _ hcp => by simp at hcp⟩
      · intro _
        show s.cap ≤ s.occ + rtoken s + ctoken { s with closed := true, cpc := true } + holders _
        have : ctoken { s with closed := true, cpc := true } = s.cap := by simp [ctoken]
        omega
      · intro hsl
        have := h.receiver hsl
        show s.msgs ≤ pushers _
        omega
    · simp at hs
  | closeNotify =>
    simp only [step] at hs
    split at hs
    · rename_i hc
      simp only [Option.some.injEq] at hs; subst hs
      have hP : pushers { s with inset := fun _ => false, cpc := false } = pushers s := pushers_same s _ rfl (fun _ _ => rfl)
      refine ⟨hoc, hml, fun _ _ _ => rfl, ?_, ?_, fun hcp => by simp at hcp, ?_⟩
      · rintro ⟨j, _, _, hb⟩; simp at hb
      · intro hsl
        have := h.receiver hsl
        show s.msgs ≤ pushers _
        omega
      · rintro _ _ j ⟨_, _, hb⟩; simp at hb
    · simp at hs
  | sNotify i =>
    simp only [step] at hs
    split at hs
    · rename_i hc
      obtain ⟨hi, hpc⟩ := hc
      have hb := h.notInset i hi (Or.inr (Or.inr (Or.inr hpc)))
      simp only [Option.some.injEq] at hs; subst hs
      refine inv_sender_local s _ i h hi rfl rfl (fun j _ hji => by simp [upd_other _ _ hji]) rfl rfl rfl hoc (Nat.le_refl _)
        (fun _ => hb) ⟨?_, ?_⟩ ⟨fun x => by simp at x, fun x => by simp at x⟩
      · rintro ⟨_, hp, _⟩; simp at hp
      · left; simp [hpc, hb, holder]
    · simp at hs
  | rBegin =>
    simp only [step] at hs
    split at hs
    · rename_i hc0
      have hc := hc0.1
      simp only [Option.some.injEq] at hs; subst hs
      refine inv_receiver_local s _ h rfl rfl rfl rfl rfl rfl hoc (by simp [rborrow, hc] at hml ⊢; omega) ?_ ?_
      · simp [rtoken, hc]
      · rintro ⟨hp, _⟩; simp at hp
    · simp at hs
  | rRepoll =>
    simp only [step] at hs
    split at hs
    · rename_i hc
      simp only [Option.some.injEq] at hs; subst hs
      refine inv_receiver_local s _ h rfl rfl rfl rfl rfl rfl hoc (by simp [rborrow, hc] at hml ⊢; omega) ?_ ?_
      · simp [rtoken, hc]
      · rintro ⟨hp, _⟩; simp at hp
    · simp at hs
  | rTry1 =>
    simp only [step] at hs
    split at hs
    · rename_i hc
      split at hs <;> (simp only [Option.some.injEq] at hs; subst hs)
      · refine inv_receiver_local s _ h rfl rfl rfl rfl rfl rfl hoc (by simp [rborrow, hc] at hml ⊢; omega) ?_ ?_
        · simp [rtoken, hc]
        · rintro ⟨hp, _⟩; simp at hp
      · refine inv_receiver_local s _ h rfl rfl rfl rfl rfl rfl hoc (by simp [rborrow, hc] at hml ⊢; omega) ?_ ?_
        · simp [rtoken, hc]
        · rintro ⟨hp, _⟩; simp at hp
    · simp at hs
  | rReg =>
    simp only [step] at hs
    split at hs
    · rename_i hc
      simp only [Option.some.injEq] at hs; subst hs
      refine inv_receiver_local s _ h rfl rfl rfl rfl rfl rfl hoc (by simp [rborrow, hc] at hml ⊢; omega) ?_ ?_
      · simp [rtoken, hc]
      · rintro ⟨hp, _⟩; simp at hp
    · simp at hs
  | rTry2 =>
    simp only [step] at hs
    split at hs
    · rename_i hc
      split at hs <;> (simp only [Option.some.injEq] at hs; subst hs)
      · refine inv_receiver_local s _ h rfl rfl rfl rfl rfl rfl hoc (by simp [rborrow, hc] at hml ⊢; omega) ?_ ?_
        · simp [rtoken, hc]
        · rintro ⟨hp, _⟩; simp at hp
      · rename_i hz
        refine inv_receiver_local s _ h rfl rfl rfl rfl rfl rfl hoc (by simp [rborrow, hc] at hml ⊢; omega) ?_ ?_
        · simp [rtoken, hc]
        · intro _; right; show s.msgs = 0; omega
    · simp at hs
  | rUnreg =>
    simp only [step] at hs
    split at hs
    · rename_i hc
      simp only [Option.some.injEq] at hs; subst hs
      refine inv_receiver_local s _ h rfl rfl rfl rfl rfl rfl hoc (by simp [rborrow, hc] at hml ⊢; omega) ?_ ?_
      · simp [rtoken, hc]
      · rintro ⟨hp, _⟩; simp at hp
    · simp at hs
  | rRelease =>
    simp only [step] at hs
    split at hs
    · rename_i hc
      simp only [Option.some.injEq] at hs; subst hs
      have hb : s.msgs + 1 ≤ s.occ := by simp [rborrow, hc] at hml; exact hml
      refine inv_receiver_local s _ h rfl rfl rfl rfl rfl rfl (by show s.occ - 1 ≤ s.cap; omega)
        (by simp [rborrow]; omega) ?_ ?_
      · simp [rtoken, hc]; omega
      · rintro ⟨hp, _⟩; simp at hp
    · simp at hs
  | rNotify k =>
    simp only [step] at hs
    split at hs
    · rename_i hc
      rw [if_neg (by simp [ha])] at hs
      split at hs
      · rename_i hempty
        simp only [Option.some.injEq] at hs; subst hs
        have hH : holders { s with rpc := .handler } = holders s := holders_same s _ rfl (fun _ _ => ⟨rfl, rfl⟩)
        have hP : pushers { s with rpc := .handler } = pushers s := pushers_same s _ rfl (fun _ _ => rfl)
        refine ⟨hoc, by simp [rborrow, hc] at hml ⊢; omega, h.notInset, ?_, ?_, h.cpcClosed, noSleep_mono s _ h rfl rfl (fun j hsl => by
          unfold Sleeping at hsl ⊢; grind [upd])⟩
        · rintro ⟨j, hj, _, hb⟩
          have := hempty j hj
          simp_all
        · rintro ⟨hp, _⟩; simp at hp
      · split at hs
        · rename_i hk
          obtain ⟨hk, hkin⟩ := hk
          simp only [Option.some.injEq] at hs; subst hs
          have hH := holders_upd1 s { s with inset := upd s.inset k false, rpc := .handler } k hk rfl
            (fun j _ hjk => by simp [upd_other _ _ hjk])
          have hkpc : s.spc k = .rm ∨ s.spc k = .try2 ∨ s.spc k = .cancel ∨ s.spc k = .pending ∨ s.spc k = .cancelErr := by
            have := h.notInset k hk
            cases hp : s.spc k <;> simp_all
          refine ⟨hoc, by simp [rborrow, hc] at hml ⊢; omega, ?_, ?_, ?_, h.cpcClosed, noSleep_mono s _ h rfl rfl (fun j hsl => by
            unfold Sleeping at hsl ⊢; grind [upd])⟩
          · intro j hj hp
            by_cases hjk : j = k
            · subst hjk; simp
            · simp only [upd_other _ _ hjk]; exact h.notInset j hj hp
          · rintro ⟨j, hj, hp, hb⟩
            have hjk : j ≠ k := by intro e; subst e; simp at hb
            simp only [upd_other _ _ hjk] at hb
            have := h.senders ⟨j, hj, hp, hb⟩
            have e2 : holder (s.spc k) (s.inset k) = 0 := by simp [hkin, holder]
            have e4 : holder (s.spc k) (upd s.inset k false k) = 1 := by
              simp only [upd_same]
              rcases hkpc with e | e | e | e | e <;> simp [e, holder]
            simp only [e2, e4] at hH
            have e5 : rtoken s = 1 := by simp [rtoken, hc]
            show s.cap ≤ s.occ + rtoken { s with inset := upd s.inset k false, rpc := .handler } + ctoken s + holders _
            have e6 : rtoken { s with inset := upd s.inset k false, rpc := RPc.handler } = 0 := by simp [rtoken]
            omega
          · rintro ⟨hp, _⟩; simp at hp
        · simp at hs
    · simp at hs

theorem always_step (l : Label) (s s' : St) (hs : step l s = some s') : s'.always = s.always ∧ s'.n = s.n ∧ s'.cap = s.cap := by
  cases l <;> simp only [step] at hs <;> (repeat' split at hs) <;>
    first | (simp only [Option.some.injEq] at hs; subst hs; exact ⟨rfl, rfl, rfl⟩) | (simp at hs)

theorem reach_params {n cap : Nat} {a : Bool} {s : St} (h : Reach n cap a s) : s.always = a ∧ s.n = n ∧ s.cap = cap := by
  induction h with
  | init => exact ⟨rfl, rfl, rfl⟩
  | step l _ hs ih =>
    have := always_step l _ _ hs
    exact ⟨this.1.trans ih.1, this.2.1.trans ih.2.1, this.2.2.trans ih.2.2⟩

theorem reach_inv {n cap : Nat} {s : St} (h : Reach n cap true s) : Inv s := by
  induction h with
  | init => exact inv_init n cap true
  | step l hr hs ih => exact inv_step l _ _ ih (reach_params hr).1 hs

end NexoVerif.Chan
