import NexoVerif.Lemmas.NetDue
/-! Schedule independence: a completed run has handled exactly the nodes of the unfolding tree, each once. -/
namespace NexoVerif.Net
set_option linter.unusedSimpArgs false
set_option linter.unusedVariables false

theorem nodup_map_of_inj_on {α β} (f : α → β) (l : List α) (hn : l.Nodup) (hinj : ∀ a ∈ l, ∀ b ∈ l, f a = f b → a = b) :
    (l.map f).Nodup := by
  induction l with
  | nil => simp
  | cons a r ih =>
    simp only [List.nodup_cons] at hn
    simp only [List.map_cons, List.nodup_cons]
    refine ⟨?_, ih hn.2 (fun x hx y hy hxy => hinj x (by simp [hx]) y (by simp [hy]) hxy)⟩
    intro hmem
    obtain ⟨b, hb, hfb⟩ := List.mem_map.mp hmem
    have := hinj a (by simp) b (by simp [hb]) hfb.symm
    subst this; exact hn.1 hb

theorem nodup_of_nodup_map {α β} (f : α → β) {l : List α} (h : (l.map f).Nodup) : l.Nodup := by
  induction l with
  | nil => simp
  | cons a r ih =>
    simp only [List.map_cons, List.nodup_cons] at h ⊢
    exact ⟨fun ha => h.1 (List.mem_map_of_mem ha), ih h.2⟩

/-- no event is handled twice, by whichever model -/
theorem handled_eids_nodup (P : Prog) {s : St} (h : Reach P s) : (s.handled.map (·.2)).Nodup := by
  induction h with
  | init => simp [St.init]
  | @step s0 s1 l hr hs ih =>
    have hI := reach_inv P hr
    have hF := reach_finv P hr
    cases l with
    | init m => obtain ⟨_, _, _, _, _, hh, _⟩ := step_init_eq hs; rw [hh]; exact ih
    | spawn t ops => obtain ⟨_, _, _, _, sl, _⟩ := step_spawn_eq hs; rw [sl.handled]; exact ih
    | start t => obtain ⟨_, _, _, _, _, _, _, _, hh, _⟩ := step_start_eq hs; rw [hh]; exact ih
    | push t i =>
      obtain ⟨_, _, _, hc⟩ := step_push_eq hs
      rcases hc with ⟨_, _, _, sl, _⟩ | ⟨_, _, _, sl, _⟩ | ⟨_, _, _, _, _, _, hh, _⟩
      · rw [sl.handled]; exact ih
      · rw [sl.handled]; exact ih
      · rw [hh]; exact ih
    | opDone t => obtain ⟨_, _, _, _, sl, _⟩ := step_opDone_eq hs; rw [sl.handled]; exact ih
    | finish t => obtain ⟨_, _, _, _, _, _, sl, _⟩ := step_finish_eq hs; rw [sl.handled]; exact ih
    | deliver m =>
      obtain ⟨p, ps, _, hmb, _, _, _, hh, _⟩ := step_deliver_eq hs
      rw [hh]
      simp only [List.map_append, List.map_cons, List.map_nil]
      rw [List.nodup_append]
      refine ⟨ih, by simp, ?_⟩
      intro a ha b hb; simp at hb; subst hb
      intro hab; subst hab
      obtain ⟨x, hx, hxe⟩ := List.mem_map.mp ha
      obtain ⟨m', e⟩ := x
      simp at hxe; subst hxe
      exact queued_not_handled hI hF (show p ∈ s0.mbox m by rw [hmb]; simp) m' hx

theorem xreach_invs (P : Prog) {x : St × G} (h : XReach P x) : BInv x.1 x.2 ∧ UInv P x.1 x.2 ∧ DInv P x.1 x.2 := by
  induction h with
  | init => exact ⟨binv_init, uinv_init P, dinv_init P⟩
  | @step x0 x1 l hx hs ih =>
    have hr := xreach_reach P hx
    unfold xstep at hs
    split at hs
    · rename_i s' hst
      simp only [Option.some.injEq] at hs; subst hs
      have hI := reach_inv P hr
      have hF := reach_finv P hr
      have hN := reach_iinv P hr
      exact ⟨binv_step P l _ _ _ hI ih.1 hst, uinv_step P l _ _ _ hI hF hN ih.1 ih.2.1 hst,
        dinv_step P l _ _ _ hI hF hN ih.1 ih.2.1 ih.2.2 hst⟩
    · simp at hs

/-- the handler invocations of a run, with their paths: (path, model, payload) in processing order -/
def evs (x : St × G) : List (List Nat × Nat × Nat) := x.1.handled.map (fun h => (x.2.path h.2, h.1, x.2.pl h.2))

/-- a run that has come to rest successfully -/
def Completed (P : Prog) (s : St) : Prop := s.fault = none ∧ (∀ l, step P l s = none) ∧ s.count = 0

theorem evs_sound (P : Prog) {x : St × G} (h : XReach P x) :
    ∀ π m p, (π, m, p) ∈ evs x → InTree P x.2.roots π m p := by
  obtain ⟨hB, hU, _⟩ := xreach_invs P h
  have hI := reach_inv P (xreach_reach P h)
  intro π m p hmem
  obtain ⟨⟨m', e⟩, hin, heq⟩ := List.mem_map.mp hmem
  simp at heq
  obtain ⟨rfl, rfl, rfl⟩ := heq
  obtain ⟨he, hd⟩ := hB.arr m' e (handled_arrived hI hin)
  have := hU.sound e he
  rw [hd] at this; exact this.box

theorem evs_nodup (P : Prog) {x : St × G} (h : XReach P x) : (evs x).Nodup := by
  obtain ⟨hB, hU, _⟩ := xreach_invs P h
  have hr := xreach_reach P h
  have hI := reach_inv P hr
  have hnd := handled_eids_nodup P hr
  have hnd' : x.1.handled.Nodup := nodup_of_nodup_map _ hnd
  unfold evs
  apply nodup_map_of_inj_on _ _ hnd'
  intro a ha b hb hab
  simp at hab
  obtain ⟨ma, ea⟩ := a
  obtain ⟨mb, eb⟩ := b
  simp at hab
  have hea := (hB.arr ma ea (handled_arrived hI ha)).1
  have heb := (hB.arr mb eb (handled_arrived hI hb)).1
  have := hU.inj ea eb hea heb hab.1
  subst this
  rw [hab.2.1]

theorem evs_complete (P : Prog) {x : St × G} (h : XReach P x) (hc : Completed P x.1) (hcap : ∀ d, 1 ≤ P.cap d) :
    ∀ π m p, InTree P x.2.roots π m p → (π, m, p) ∈ evs x := by
  obtain ⟨hB, hU, hD⟩ := xreach_invs P h
  have hr := xreach_reach P h
  have hI := reach_inv P hr
  have hW := reach_winv P hr
  have hN := reach_iinv P hr
  obtain ⟨hf, hq, hcnt⟩ := hc
  have hnobusy := quiescent_ok_no_busy P hr hf hq hcnt hcap
  have hempty := (count_zero_iff hI).mp hcnt
  -- an event that was created has been handled
  have hdone : ∀ e d, e < x.1.nextEid → x.2.dst e = .box d → (x.2.path e, d, x.2.pl e) ∈ evs x := by
    intro e d he hd
    rcases hD.pending e d he hd with ⟨t, sub, hsub, _, _⟩ | harr
    · have := hW.idleEmpty t (hnobusy t)
      rw [this] at hsub; simp at hsub
    · have hq' : e ∈ arrivals x.1 d := mem_arrivals.mpr harr
      rw [hI.fifo d, hempty d] at hq'
      simp at hq'
      have hh : (d, e) ∈ x.1.handled := mem_handledBy.mp hq'
      exact List.mem_map.mpr ⟨(d, e), hh, rfl⟩
  -- every invocation in the log has created all its children
  have hchildren : ∀ π ops, (π, ops) ∈ x.2.inv → ∀ k op j d p q, ops[k]? = some op → op[j]? = some (.box d, p, q) →
      (π ++ [k, j], d, p) ∈ evs x := by
    intro π ops hin k op j d p q hk hj
    obtain ⟨e, he, h1, h2, h3⟩ := hD.created π ops hin k op j (.box d) p q hk hj
      (fun t ht _ => absurd ht (hnobusy t))
    have := hdone e d he h2
    rw [h1, h3] at this; exact this
  intro π m p ht
  induction ht with
  | spawn i k j ops op d p q h1 h2 h3 =>
    exact hchildren [1, i] ops (hD.invSpawn i ops h1) k op j d p q h2 h3
  | init m k j op d p q h1 h2 h3 h4 =>
    have hm : m ∈ x.1.inits := by
      apply (hN.started m h1).mpr
      intro hph
      have := hq (.init m)
      simp [step, hf, hph, h1, h2] at this
    exact hchildren [0, m] (P.initOps m) (hD.invInit m hm) k op j d p q h3 h4
  | child π m p k j op d p' q _ h2 h3 ih =>
    obtain ⟨⟨m', e0⟩, hin, heq⟩ := List.mem_map.mp ih
    simp at heq
    obtain ⟨rfl, rfl, rfl⟩ := heq
    exact hchildren _ _ (hD.invHandled m' e0 hin) k op j d p' q h2 h3

/-- **two completed runs of the same program from the same driver requests have handled the same events** -/
theorem completed_runs_agree (P : Prog) {x1 x2 : St × G} (h1 : XReach P x1) (h2 : XReach P x2)
    (c1 : Completed P x1.1) (c2 : Completed P x2.1) (hcap : ∀ d, 1 ≤ P.cap d) (hroots : x1.2.roots = x2.2.roots) :
    x1.1.handledP.Perm x2.1.handledP := by
  have hp : (evs x1).Perm (evs x2) := by
    rw [List.perm_ext_iff_of_nodup (evs_nodup P h1) (evs_nodup P h2)]
    intro a
    obtain ⟨π, m, p⟩ := a
    constructor
    · intro ha; exact evs_complete P h2 c2 hcap π m p (hroots ▸ evs_sound P h1 π m p ha)
    · intro ha; exact evs_complete P h1 c1 hcap π m p (hroots ▸ evs_sound P h2 π m p ha)
  have e1 : x1.1.handledP = (evs x1).map (fun a => (a.2.1, a.2.2)) := by
    rw [(xreach_invs P h1).1.hP]; unfold evs; rw [List.map_map]; rfl
  have e2 : x2.1.handledP = (evs x2).map (fun a => (a.2.1, a.2.2)) := by
    rw [(xreach_invs P h2).1.hP]; unfold evs; rw [List.map_map]; rfl
  rw [e1, e2]
  exact hp.map _

end NexoVerif.Net
