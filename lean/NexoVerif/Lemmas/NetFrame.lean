import NexoVerif.Lemmas.NetQuiesce
/-! Frame lemmas: what each transition of M-NET changes. -/
namespace NexoVerif.Net
set_option linter.unusedSimpArgs false
set_option linter.unusedVariables false

/-- everything a transition leaves alone except the listed components -/
structure SameLogs (s s' : St) : Prop where
  arrLog : s'.arrLog = s.arrLog
  handled : s'.handled = s.handled
  handledP : s'.handledP = s.handledP
  nextEid : s'.nextEid = s.nextEid
  mbox : s'.mbox = s.mbox
  inits : s'.inits = s.inits

theorem step_init_eq {P : Prog} {m : Nat} {s s' : St} (h : step P (.init m) s = some s') :
    (s.task m).phase = .notInit ∧ P.isModel m = true ∧ P.inSim m = true ∧
    s'.task = upd s.task m { s.task m with phase := .busy, rest := P.initOps m, handling := P.initPayload m } ∧
    s'.arrLog = s.arrLog ∧ s'.handled = s.handled ∧ s'.handledP = s.handledP ∧ s'.nextEid = s.nextEid ∧
    s'.mbox = s.mbox ∧ s'.inits = s.inits ++ [m] ∧ s'.fault = s.fault := by
  unfold step at h
  split at h
  · simp at h
  · simp only at h
    split at h
    · rename_i hc
      simp only [Option.some.injEq] at h; subst h
      exact ⟨hc.1, hc.2.1, hc.2.2, rfl, rfl, rfl, rfl, rfl, rfl, rfl, rfl⟩
    · simp at h

theorem step_spawn_eq {P : Prog} {t : Nat} {ops : List Op} {s s' : St} (h : step P (.spawn t ops) s = some s') :
    P.isModel t = false ∧ (s.task t).phase ≠ .busy ∧ (s.task t).cur = [] ∧
    s'.task = upd s.task t { s.task t with phase := .busy, rest := ops, serving := none } ∧
    SameLogs s s' ∧ s'.fault = s.fault := by
  unfold step at h
  split at h
  · simp at h
  · simp only at h
    split at h
    · rename_i hc
      simp only [Option.some.injEq] at h; subst h
      refine ⟨hc.1, ?_, hc.2.2.1, rfl, ⟨rfl, rfl, rfl, rfl, rfl, rfl⟩, rfl⟩
      rcases hc.2.1 with h | h <;> rw [h] <;> simp
    · simp at h

theorem step_start_eq {P : Prog} {t : Nat} {s s' : St} (h : step P (.start t) s = some s') :
    ∃ op ops, (s.task t).phase = .busy ∧ (s.task t).cur = [] ∧ (s.task t).rest = op :: ops ∧
    s'.task = upd s.task t { s.task t with cur := mkSubs s.nextEid op, rest := ops } ∧
    s'.nextEid = s.nextEid + op.length ∧ s'.arrLog = s.arrLog ∧ s'.handled = s.handled ∧ s'.handledP = s.handledP ∧
    s'.mbox = s.mbox ∧ s'.inits = s.inits ∧ s'.fault = s.fault := by
  unfold step at h
  split at h
  · simp at h
  · simp only at h
    split at h
    · rename_i op ops hph hcur hrest
      simp only [Option.some.injEq] at h; subst h
      exact ⟨op, ops, hph, hcur, hrest, rfl, rfl, rfl, rfl, rfl, rfl, rfl, rfl⟩
    · simp at h

/-- the three outcomes of a push -/
theorem step_push_eq {P : Prog} {t i : Nat} {s s' : St} (h : step P (.push t i) s = some s') :
    ∃ sub, (s.task t).cur[i]? = some sub ∧ sub.st = .toPush ∧
    ((∃ k, sub.dst = .sink k ∧ s'.task = upd s.task t { s.task t with cur := setSt (s.task t).cur i .pushed } ∧
        SameLogs s s' ∧ s'.fault = s.fault) ∨
     (∃ k, sub.dst = .dead k ∧ s'.task = s.task ∧ SameLogs s s' ∧ s'.fault = some (.noRecipient t)) ∨
     (∃ d, sub.dst = .box d ∧ (s.mbox d).length < P.cap d ∧
        s'.task = upd s.task t { s.task t with cur := setSt (s.task t).cur i .pushed } ∧
        s'.mbox = upd s.mbox d (s.mbox d ++ [⟨sub.eid, t, sub.payload, sub.query, sub.eid :: (s.task t).past⟩]) ∧
        s'.arrLog = s.arrLog ++ [(d, sub.eid)] ∧ s'.handled = s.handled ∧ s'.handledP = s.handledP ∧
        s'.nextEid = s.nextEid ∧ s'.inits = s.inits ∧ s'.fault = s.fault)) := by
  unfold step at h
  split at h
  · simp at h
  · simp only at h
    split at h
    · rename_i sub hsub
      split at h
      · rename_i hst
        refine ⟨sub, hsub, hst, ?_⟩
        split at h
        · rename_i k hk
          simp only [Option.some.injEq] at h; subst h
          exact Or.inl ⟨k, hk, rfl, ⟨rfl, rfl, rfl, rfl, rfl, rfl⟩, rfl⟩
        · rename_i k hk
          simp only [Option.some.injEq] at h; subst h
          exact Or.inr (Or.inl ⟨k, hk, rfl, ⟨rfl, rfl, rfl, rfl, rfl, rfl⟩, rfl⟩)
        · rename_i d hd
          split at h
          · rename_i hcap
            simp only [Option.some.injEq] at h; subst h
            exact Or.inr (Or.inr ⟨d, hd, hcap, rfl, rfl, rfl, rfl, rfl, rfl, rfl, rfl⟩)
          · simp at h
      · simp at h
    · simp at h

theorem step_deliver_eq {P : Prog} {m : Nat} {s s' : St} (h : step P (.deliver m) s = some s') :
    ∃ p ps, (s.task m).phase = .idle ∧ s.mbox m = p :: ps ∧
    s'.task = upd s.task m { s.task m with phase := .busy, rest := P.react m p.payload,
                                           serving := if p.query then some (p.src, p.eid) else none,
                                           handling := p.payload, past := pjoin p.past (s.task m).past } ∧
    s'.mbox = upd s.mbox m ps ∧ s'.arrLog = s.arrLog ∧ s'.handled = s.handled ++ [(m, p.eid)] ∧
    s'.handledP = s.handledP ++ [(m, p.payload)] ∧ s'.nextEid = s.nextEid ∧ s'.inits = s.inits := by
  unfold step at h
  split at h
  · simp at h
  · simp only at h
    split at h
    · rename_i p ps hph hmb
      simp only [Option.some.injEq] at h; subst h
      exact ⟨p, ps, hph, hmb, rfl, rfl, rfl, rfl, rfl, rfl, rfl⟩
    · simp at h

theorem step_opDone_eq {P : Prog} {t : Nat} {s s' : St} (h : step P (.opDone t) s = some s') :
    (s.task t).phase = .busy ∧ (s.task t).cur ≠ [] ∧ (s.task t).cur.all Sub.done = true ∧
    s'.task = upd s.task t { s.task t with cur := [], past := pjoin (boxEids (s.task t).cur) (s.task t).past } ∧
    SameLogs s s' ∧ s'.fault = s.fault := by
  unfold step at h
  split at h
  · simp at h
  · simp only at h
    split at h
    · rename_i hc
      simp only [Option.some.injEq] at h; subst h
      exact ⟨hc.1, hc.2.1, hc.2.2, rfl, ⟨rfl, rfl, rfl, rfl, rfl, rfl⟩, rfl⟩
    · simp at h

/-- `finish`: the task leaves the busy phase; another task's `cur` may get a reply mark (same eids, dsts, payloads) -/
theorem step_finish_eq {P : Prog} {t : Nat} {s s' : St} (h : step P (.finish t) s = some s') :
    (s.task t).phase = .busy ∧ (s.task t).cur = [] ∧ (s.task t).rest = [] ∧
    (s'.task t).phase ≠ .busy ∧ (s'.task t).cur = [] ∧
    (∀ u, u ≠ t → (s'.task u).phase = (s.task u).phase ∧ (s'.task u).rest = (s.task u).rest ∧
        (s'.task u).handling = (s.task u).handling ∧
        (s'.task u).cur.map (fun x => (x.eid, x.dst, x.payload)) = (s.task u).cur.map (fun x => (x.eid, x.dst, x.payload)) ∧
        (∀ y ∈ (s'.task u).cur, y.st = .toPush → y ∈ (s.task u).cur) ∧
        (∀ y ∈ (s.task u).cur, y.st = .toPush → y ∈ (s'.task u).cur)) ∧
    SameLogs s s' ∧ s'.fault = s.fault := by
  unfold step at h
  split at h
  · simp at h
  · simp only at h
    split at h
    · rename_i hc
      split at h
      · simp only [Option.some.injEq] at h; subst h
        refine ⟨hc.1, hc.2.1, hc.2.2, ?_, ?_, ?_, ⟨rfl, rfl, rfl, rfl, rfl, rfl⟩, rfl⟩
        · simp; split <;> simp
        · simp; exact hc.2.1
        · intro u hu; simp [upd_other _ _ hu]; exact fun y hy _ => hy
      · rename_i r e hserv
        simp only [Option.some.injEq] at h; subst h
        refine ⟨hc.1, hc.2.1, hc.2.2, ?_, ?_, ?_, ⟨rfl, rfl, rfl, rfl, rfl, rfl⟩, rfl⟩
        · simp; split <;> simp
        · simp
          by_cases htr : t = r
          · subst htr; simp [hc.2.1, markReplied]
          · simp [upd_other _ _ htr]; exact hc.2.1
        · intro u hu
          simp only [upd_other _ _ hu]
          by_cases hur : u = r
          · subst hur
            simp only [upd_same]
            refine ⟨trivial, trivial, trivial, ?_, ?_, ?_⟩
            · unfold markReplied
              rw [List.map_map]
              apply List.map_congr_left
              intro a _
              simp only [Function.comp]
              split <;> rfl
            · intro y hy hp
              exact markReplied_pending hy hp
            · intro y hy hp
              unfold markReplied
              apply List.mem_map.mpr
              refine ⟨y, hy, ?_⟩
              have : ¬(y.eid = e ∧ y.st = .pushed) := by intro hc; rw [hp] at hc; simp at hc
              rw [if_neg this]
          · simp [upd_other _ _ hur]; exact fun y hy _ => hy
    · simp at h

end NexoVerif.Net
