import NexoVerif.Lemmas.ChanStepB
namespace NexoVerif.Chan
set_option linter.unusedSimpArgs false
set_option linter.unusedVariables false
set_option maxHeartbeats 4000000

theorem holders_zero_of_quiescent (s : St) (hq : Quiescent s) : holders s = 0 := by
  unfold holders
  apply total_zero
  intro j hj
  rcases hq.1 j hj with h | ⟨h, hb⟩ <;> simp [h, holder, *]

theorem pushers_zero_of_quiescent (s : St) (hq : Quiescent s) : pushers s = 0 := by
  unfold pushers
  apply total_zero
  intro j hj
  rcases hq.1 j hj with h | ⟨h, _⟩ <;> simp [h, pusher]

/-- **no lost wake-up**: in every reachable state in which nothing is in progress (every sender idle or asleep, the
receiver asleep or busy elsewhere), a sender sleeps only while the mailbox is full and the receiver sleeps only while
it is empty. -/
theorem no_lost_wakeup {n cap : Nat} {s : St} (hr : Reach n cap true s) (hq : Quiescent s) :
    (∀ i, Sleeping s i → s.occ = s.cap) ∧ (RSleeping s → s.msgs = 0) := by
  have h := reach_inv hr
  constructor
  · intro i hsl
    have := h.senders ⟨i, hsl⟩
    rw [holders_zero_of_quiescent s hq] at this
    have hrt : rtoken s = 0 := by
      unfold rtoken
      rcases hq.2.1 with e | ⟨e, _⟩ <;> simp [e]
    have hct : ctoken s = 0 := by simp [ctoken, hq.2.2]
    have := h.occLe
    omega
  · intro hsl
    have := h.receiver hsl
    rw [pushers_zero_of_quiescent s hq] at this
    omega

/-- **a wake-up is always on its way**: in every reachable state, while a sender sleeps and a slot is free, either the
receiver is about to notify, or some sender that is not in the wait set is about to look at the queue again (or to
pass its notification on); while the receiver sleeps and a message is queued, the sender that pushed it is about to
notify the receiver. -/
theorem wakeup_in_flight {n cap : Nat} {s : St} (hr : Reach n cap true s) :
    ((∃ i, Sleeping s i) → s.occ < s.cap →
      s.rpc = .notify ∨ s.cpc = true ∨ ∃ j, j < s.n ∧ s.inset j = false ∧
        (s.spc j = .rm ∨ s.spc j = .try1 ∨ s.spc j = .try2 ∨ s.spc j = .cancel ∨ s.spc j = .pending ∨
          s.spc j = .cancelErr)) ∧
    (RSleeping s → 0 < s.msgs → ∃ j, j < s.n ∧ (s.spc j = .cancel ∨ s.spc j = .notifyRecv)) := by
  have h := reach_inv hr
  constructor
  · intro hsl hroom
    have := h.senders hsl
    by_cases hrn : s.rpc = .notify
    · exact Or.inl hrn
    · right
      cases hcp : s.cpc with
      | true => exact Or.inl rfl
      | false =>
      right
      have hrt : rtoken s = 0 := by simp [rtoken, hrn]
      have hct : ctoken s = 0 := by simp [ctoken, hcp]
      have hpos : 0 < holders s := by omega
      obtain ⟨j, hj, hjp⟩ := total_pos _ _ hpos
      refine ⟨j, hj, ?_⟩
      simp only [holder] at hjp
      split at hjp
      · rename_i hc; exact hc
      · omega
  · intro hsl hm
    have := h.receiver hsl
    have hpos : 0 < pushers s := by omega
    obtain ⟨j, hj, hjp⟩ := total_pos _ _ hpos
    refine ⟨j, hj, ?_⟩
    simp only [pusher] at hjp
    split at hjp
    · rename_i hc; exact hc
    · omega

/-- every sender that is not in the wait set and not idle has a step, and so has a receiver about to notify: together
with `wakeup_in_flight`, a sleeping sender with a free slot is never in a state without a step -/
theorem holder_can_move {s : St} (j : Nat) (hj : j < s.n) (hb : s.inset j = false)
    (hp : s.spc j = .rm ∨ s.spc j = .try1 ∨ s.spc j = .try2 ∨ s.spc j = .cancel ∨ s.spc j = .pending ∨
      s.spc j = .cancelErr) :
    ∃ l, (step l s).isSome = true := by
  rcases hp with e | e | e | e | e | e
  · exact ⟨.sRemove j, by simp [step, hj, e]⟩
  · cases hcl : s.closed with
    | false => exact ⟨.sTry1 j, by by_cases h : s.occ < s.cap <;> simp [step, hj, e, h, hcl]⟩
    | true => exact ⟨.sTry1Closed j, by simp [step, hj, e, hcl]⟩
  · cases hcl : s.closed with
    | false => exact ⟨.sTry2 j, by by_cases h : s.occ < s.cap <;> simp [step, hj, e, h, hcl]⟩
    | true => exact ⟨.sTry2Closed j, by simp [step, hj, e, hcl]⟩
  · by_cases hem : setEmpty s
    · exact ⟨.sCancel j 0, by simp [step, hj, e, hb, hem]⟩
    · have : ∃ k, k < s.n ∧ s.inset k = true := by
        apply Classical.byContradiction
        intro hno
        apply hem
        intro k hk
        cases hkb : s.inset k with
        | false => rfl
        | true => exact absurd ⟨k, hk, hkb⟩ hno
      obtain ⟨k, hk, hkb⟩ := this
      exact ⟨.sCancel j k, by simp [step, hj, e, hb, hem, hk, hkb]⟩
  · exact ⟨.sRepoll j, by simp [step, hj, e]⟩
  · by_cases hem : setEmpty s
    · exact ⟨.sCancelErr j 0, by simp [step, hj, e, hb, hem]⟩
    · have : ∃ k, k < s.n ∧ s.inset k = true := by
        apply Classical.byContradiction
        intro hno
        apply hem
        intro k hk
        cases hkb : s.inset k with
        | false => rfl
        | true => exact absurd ⟨k, hk, hkb⟩ hno
      obtain ⟨k, hk, hkb⟩ := this
      exact ⟨.sCancelErr j k, by simp [step, hj, e, hb, hem, hk, hkb]⟩

/-- **closing wakes everybody**: once the mailbox has been closed and its `notify_all` has run, no sender sleeps; a sender
that looks at the queue afterwards finds it closed and fails.  In particular, when nothing is in progress any more, every
sender has returned. -/
theorem closing_wakes_every_sender {n cap : Nat} {s : St} (hr : Reach n cap true s) (hcl : s.closed = true)
    (hcp : s.cpc = false) : (∀ i, ¬ Sleeping s i) ∧ (Quiescent s → ∀ i, i < s.n → s.spc i = .idle) := by
  have h := reach_inv hr
  refine ⟨h.noSleepAfterClose hcl hcp, fun hq i hi => ?_⟩
  rcases hq.1 i hi with e | ⟨e, hb⟩
  · exact e
  · exact absurd ⟨hi, e, hb⟩ (h.noSleepAfterClose hcl hcp i)

/-! ### the variant that notifies only when the pop left the full state -/

def runLabels : List Label → St → Option St
  | [], s => some s
  | l :: ls, s => match step l s with
    | some s' => runLabels ls s'
    | none => none

theorem runLabels_reach {n cap : Nat} {a : Bool} (ls : List Label) (s s' : St) (h : Reach n cap a s)
    (hr : runLabels ls s = some s') : Reach n cap a s' := by
  induction ls generalizing s with
  | nil => simp [runLabels] at hr; subst hr; exact h
  | cons l ls ih =>
    simp only [runLabels] at hr
    cases hs : step l s with
    | none => rw [hs] at hr; cases hr
    | some t => rw [hs] at hr; exact ih t (Reach.step l h hs) hr

/-- capacity 2, four senders: two messages fill the mailbox, two more senders go to sleep; the receiver pops twice — the
second pop does not leave the full state, so nobody is notified and sender 3 sleeps although a slot is free -/
def lostSchedule : List Label :=
  [ .sBegin 0, .sTry1 0, .sNotify 0, .sBegin 1, .sTry1 1, .sNotify 1,
    .sBegin 2, .sTry1 2, .sInsert 2, .sTry2 2, .sBegin 3, .sTry1 3, .sInsert 3, .sTry2 3,
    .rBegin, .rTry1, .rRelease, .rNotify 2, .rBegin, .rTry1, .rRelease, .rNotify 3,
    .sRepoll 2, .sRemove 2, .sTry1 2, .sNotify 2 ]

def quiescentB (s : St) : Bool :=
  (List.range s.n).all (fun i => s.spc i == .idle || (s.spc i == .pending && s.inset i)) &&
    (s.rpc == .handler || (s.rpc == .pending && s.rreg)) && !s.cpc

/-- **notify_only_when_leaving_full_loses_a_wakeup** — with the weaker rule the model has a run that ends with nothing
in progress, sender 3 asleep in the wait set and a free slot. -/
theorem notify_only_when_leaving_full_loses_a_wakeup :
    (runLabels lostSchedule (St.init 4 2 false)).map
      (fun s => (quiescentB s, s.spc 3 == .pending && s.inset 3, s.occ, s.cap)) = some (true, true, 1, 2) := by
  decide

/-- non-vacuity of `no_lost_wakeup`: the same schedule under the rule of the source ends with sender 3 notified -/
theorem same_schedule_with_the_source_rule :
    (runLabels lostSchedule (St.init 4 2 true)).map
      (fun s => (quiescentB s, s.spc 3 == .pending && s.inset 3, s.occ)) = some (false, false, 1) := by
  decide

end NexoVerif.Chan
