import NexoVerif.Lemmas.DropThm
/-! Dropping an executor does not touch the tasks of another one (M-DROP, `ACTIVE_TASKS` unset). -/
namespace NexoVerif.DropM
set_option linter.unusedSimpArgs false
set_option linter.unusedVariables false

def Untouched (e : Nat) (s s' : St) : Prop := ∀ v, (s.task v).exec ≠ e → s'.task v = s.task v

theorem Untouched.refl (e : Nat) (s : St) : Untouched e s s := fun _ _ => rfl

theorem Untouched.trans {e : Nat} {a b c : St} (h1 : Untouched e a b) (h2 : Untouched e b c) : Untouched e a c := by
  intro v hv
  have := h1 v hv
  rw [h2 v (by rw [this]; exact hv), this]

theorem wake_untouched (e : Nat) (s : St) (u : Nat) (hu : (s.task u).exec = e) : Untouched e s (wake true s u) := by
  intro v hv
  have hvu : v ≠ u := by intro h; subst h; exact hv hu
  unfold wake
  simp only
  split
  · rfl
  · simp only [if_true, upd_other _ _ hvu]

theorem wakes_untouched (e : Nat) : ∀ (l : List Nat) (s : St), (∀ u ∈ l, (s.task u).exec = e) →
    Untouched e s (l.foldl (wake true) s) := by
  intro l
  induction l with
  | nil => intro s _; exact Untouched.refl e s
  | cons u r ih =>
    intro s h
    simp only [List.foldl_cons]
    have h1 := wake_untouched e s u (h u (by simp))
    have hm := wake_mono s u
    exact h1.trans (ih _ (by
      intro u' hu'
      rw [(hm.2.2 u').2.2.2.2.2.1]
      exact h u' (by simp [hu'])))

theorem dropFuture_untouched (e : Nat) (s : St) (t : Nat) (he : (s.task t).exec = e)
    (htg : ∀ u ∈ (s.task t).wakesOnDrop, (s.task u).exec = e) : Untouched e s (dropFuture true none s t) := by
  unfold dropFuture
  simp only [stealToken]
  split
  · have h1 : Untouched e s { s with task := upd s.task t { s.task t with fut := false, futDrops := (s.task t).futDrops + 1 } } := by
      intro v hv
      have hvt : v ≠ t := by intro h; subst h; exact hv he
      simp only [upd_other _ _ hvt]
    refine h1.trans (wakes_untouched e _ _ ?_)
    intro u hu
    by_cases hut : u = t
    · subst hut; simp only [upd_same]; exact he
    · simp only [upd_other _ _ hut]; exact htg u hu
  · exact Untouched.refl e s

theorem upd_untouched (e : Nat) (s : St) (t : Nat) (tk : Task) (he : (s.task t).exec = e) :
    Untouched e s { s with task := upd s.task t tk } := by
  intro v hv
  have hvt : v ≠ t := by intro h; subst h; exact hv he
  simp only [upd_other _ _ hvt]

theorem step_untouched (cfg : Cfg) (e : Nat) (s : St) (t : Nat) (he : (s.task t).exec = e)
    (htg : ∀ u ∈ (s.task t).wakesOnDrop, (s.task u).exec = e) (hf : cfg.handFast = true) (hl : cfg.handLocal = true) :
    Untouched e s (workerExit cfg s t) ∧ Untouched e s (cancel none s t) ∧ Untouched e s (dropQueued none s t) := by
  refine ⟨?_, ?_, ?_⟩
  · unfold workerExit
    split
    · rw [if_pos hf]; exact upd_untouched e s t _ he
    · rw [if_pos hl]; exact upd_untouched e s t _ he
    · exact Untouched.refl e s
  · unfold cancel
    simp only
    split
    · split
      · refine (upd_untouched e s t _ he).trans (dropFuture_untouched e _ t (by simp [he]) ?_)
        intro u hu
        simp only [upd_same] at hu
        by_cases hut : u = t
        · subst hut; simp only [upd_same]; exact he
        · simp only [upd_other _ _ hut]; exact htg u hu
      · exact upd_untouched e s t _ he
    · exact Untouched.refl e s
  · unfold dropQueued
    split
    · unfold dropRunnable
      refine (upd_untouched e s t _ he).trans (dropFuture_untouched e _ t (by simp [he]) ?_)
      intro u hu
      simp only [upd_same] at hu
      by_cases hut : u = t
      · subst hut; simp only [upd_same]; exact he
      · simp only [upd_other _ _ hut]; exact htg u hu
    · exact Untouched.refl e s

/-- folding any of the three per-task steps over tasks of executor `e` leaves the other executors' tasks alone,
as long as the wake-on-drop targets stay inside `e` (which `Dec` preserves) -/
theorem fold_untouched (e : Nat) (f : St → Nat → St) (I : St → Prop)
    (hstep : ∀ s t, (s.task t).exec = e → (∀ u ∈ (s.task t).wakesOnDrop, (s.task u).exec = e) → Untouched e s (f s t))
    (hinv : ∀ s t, I s → t < s.n → (s.task t).exec = e → I (f s t) ∧ Dec s (f s t)) :
    ∀ (l : List Nat) (s : St), I s → (∀ t ∈ l, t < s.n ∧ (s.task t).exec = e) →
      (∀ t u, (s.task t).exec = e → u ∈ (s.task t).wakesOnDrop → (s.task u).exec = e) →
      Untouched e s (l.foldl f s) := by
  intro l
  induction l with
  | nil => intro s _ _ _; exact Untouched.refl e s
  | cons t r ih =>
    intro s hi hl htg
    simp only [List.foldl_cons]
    have h1 := hstep s t (hl t (by simp)).2 (fun u hu => htg t u (hl t (by simp)).2 hu)
    obtain ⟨hi', hd⟩ := hinv s t hi (hl t (by simp)).1 (hl t (by simp)).2
    refine h1.trans (ih _ hi' ?_ ?_)
    · intro t' ht'
      have := hl t' (by simp [ht'])
      exact ⟨by rw [hd.1]; exact this.1, by rw [(hd.2.2 t').1]; exact this.2⟩
    · intro t' u het hu
      rw [(hd.2.2 t').1] at het
      rw [(hd.2.2 t').2.2.1] at hu
      rw [(hd.2.2 u).1]
      exact htg t' u het hu

/-- **dropping executor `e` leaves every task of every other executor exactly as it was** -/
theorem dropExecutor_untouched (cfg : Cfg) (hf : cfg.handFast = true) (hl : cfg.handLocal = true)
    (hu : cfg.unsetActive = true) (e : Nat) (outer : Option Nat) (s : St) (hq : Q e s)
    (hall : ∀ t u, (s.task t).exec = e → u ∈ (s.task t).wakesOnDrop → (s.task u).exec = e) :
    Untouched e s (dropExecutor cfg e outer s) := by
  unfold dropExecutor
  simp only [hu, if_true]
  have hmem : ∀ t ∈ tasksOf s e, t < s.n ∧ (s.task t).exec = e := fun t ht => (mem_tasksOf s e t).mp ht
  -- phase 0
  have u0 := fold_untouched e (workerExit cfg) (Q e)
    (fun s t he htg => (step_untouched cfg e s t he htg hf hl).1)
    (fun s t hi _ _ => workerExit_spec cfg hf hl e s t hi) (tasksOf s e) s hq hmem hall
  obtain ⟨q0, d0⟩ := workerExit_fold cfg hf hl e (tasksOf s e) s hq
  generalize hs0 : (tasksOf s e).foldl (workerExit cfg) s = s0 at q0 d0 u0
  have hmem0 : ∀ t ∈ tasksOf s e, t < s0.n ∧ (s0.task t).exec = e := by
    intro t ht; have := hmem t ht
    exact ⟨by rw [d0.1]; exact this.1, by rw [(d0.2.2 t).1]; exact this.2⟩
  have hall0 : ∀ t u, (s0.task t).exec = e → u ∈ (s0.task t).wakesOnDrop → (s0.task u).exec = e := by
    intro t u het hu'
    rw [(d0.2.2 t).1] at het; rw [(d0.2.2 t).2.2.1] at hu'; rw [(d0.2.2 u).1]
    exact hall t u het hu'
  -- phase 1
  have u1 := fold_untouched e (cancel none) (Q e)
    (fun s t he htg => (step_untouched cfg e s t he htg hf hl).2.1)
    (fun s t hi hn he => let r := cancel_spec e s t hi hn he; ⟨r.1, r.2.1⟩) (tasksOf s e) s0 q0 hmem0 hall0
  obtain ⟨q1, d1, tok1⟩ := cancel_fold e (tasksOf s e) s0 q0 hmem0
  generalize hs1 : (tasksOf s e).foldl (cancel none) s0 = s1 at q1 d1 tok1 u1
  have hmem1 : ∀ t ∈ tasksOf s e, t < s1.n ∧ (s1.task t).exec = e := by
    intro t ht; have := hmem0 t ht
    exact ⟨by rw [d1.1]; exact this.1, by rw [(d1.2.2 t).1]; exact this.2⟩
  have hall1 : ∀ t u, (s1.task t).exec = e → u ∈ (s1.task t).wakesOnDrop → (s1.task u).exec = e := by
    intro t u het hu'
    rw [(d1.2.2 t).1] at het; rw [(d1.2.2 t).2.2.1] at hu'; rw [(d1.2.2 u).1]
    exact hall0 t u het hu'
  have p2 : P2 e s1 := by
    constructor
    · intro v hv hev hfv
      have hvin : v ∈ tasksOf s e := by
        rw [mem_tasksOf]
        exact ⟨by rw [← d0.1, ← d1.1]; exact hv, by rw [← (d0.2.2 v).1, ← (d1.2.2 v).1]; exact hev⟩
      rcases q1.alive v hv hev hfv with h | h
      · rw [tok1 v hvin] at h; simp at h
      · exact h
    · exact q1.targets
  -- phase 2
  have u2 := fold_untouched e (dropQueued none) (P2 e)
    (fun s t he htg => (step_untouched cfg e s t he htg hf hl).2.2)
    (fun s t hi hn he => let r := dropQueued_spec e s t hi hn he; ⟨r.1, r.2.1⟩) (tasksOf s e) s1 p2 hmem1 hall1
  exact (u0.trans u1).trans u2

end NexoVerif.DropM
