import NexoVerif.Lemmas.NetGhost
/-! Paths are unique and sound: every created event is a node of the unfolding tree, at a path of its own. -/
namespace NexoVerif.Net
set_option linter.unusedSimpArgs false
set_option linter.unusedVariables false

/-- the invocation at path `π` has begun -/
def Started (s : St) (g : G) (π : List Nat) : Prop :=
  (∃ m, m ∈ s.inits ∧ π = [0, m]) ∨ (∃ i, i < g.spawns ∧ π = [1, i]) ∨ (∃ m e0, (m, e0) ∈ s.handled ∧ g.path e0 = π)

/-- what a busy task is doing, in terms of the unfolding tree -/
inductive Ctx (P : Prog) (s : St) (g : G) (t : Nat) : Prop
  | init : P.isModel t = true → P.inSim t = true → t ∈ s.inits → g.hpath t = [0, t] → g.ops t = P.initOps t → Ctx P s g t
  | spawn (i : Nat) : i < g.spawns → g.hpath t = [1, i] → g.roots[i]? = some (g.ops t) → Ctx P s g t
  | handling (e0 : Nat) : (t, e0) ∈ s.handled → g.path e0 = g.hpath t → 4 ≤ (g.hpath t).length →
      InTree P g.roots (g.hpath t) t (s.task t).handling → g.ops t = P.react t (s.task t).handling → Ctx P s g t

theorem Ctx.len {P : Prog} {s : St} {g : G} {t : Nat} (h : Ctx P s g t) : 2 ≤ (g.hpath t).length := by
  cases h with
  | init _ _ _ h _ => rw [h]; simp
  | spawn i _ h _ => rw [h]; simp
  | handling e0 _ _ h _ _ => omega

theorem Ctx.started {P : Prog} {s : St} {g : G} {t : Nat} (h : Ctx P s g t) : Started s g (g.hpath t) := by
  cases h with
  | init _ _ hi h _ => exact Or.inl ⟨t, hi, h⟩
  | spawn i hi h _ => exact Or.inr (Or.inl ⟨i, hi, h⟩)
  | handling e0 hh hp _ _ _ => exact Or.inr (Or.inr ⟨t, e0, hh, hp⟩)

theorem InTree.mono {P : Prog} {roots : List (List Op)} (x : List (List Op)) {π : List Nat} {m p : Nat}
    (h : InTree P roots π m p) : InTree P (roots ++ x) π m p := by
  induction h with
  | spawn i k j ops op d p q h1 h2 h3 =>
    refine InTree.spawn i k j ops op d p q ?_ h2 h3
    have hi : i < roots.length := by
      rcases Nat.lt_or_ge i roots.length with h | h
      · exact h
      · rw [List.getElem?_eq_none h] at h1; simp at h1
    rw [List.getElem?_append_left hi]; exact h1
  | init m k j op d p q h1 h2 h3 h4 => exact InTree.init m k j op d p q h1 h2 h3 h4
  | child π m p k j op d p' q _ h2 h3 ih => exact InTree.child π m p k j op d p' q ih h2 h3

theorem Due.mono {P : Prog} {roots : List (List Op)} (x : List (List Op)) {π : List Nat} {d : Dst} {p : Nat}
    (h : Due P roots π d p) : Due P (roots ++ x) π d p :=
  match h with
  | .spawn i k j ops op _ _ q h1 h2 h3 =>
    have hi : i < roots.length := by
      rcases Nat.lt_or_ge i roots.length with h | h
      · exact h
      · rw [List.getElem?_eq_none h] at h1; simp at h1
    Due.spawn i k j ops op _ _ q (by rw [List.getElem?_append_left hi]; exact h1) h2 h3
  | .init m k j op _ _ q h1 h2 h3 h4 => Due.init m k j op _ _ q h1 h2 h3 h4
  | .child π0 m p0 k j op _ _ q h1 h2 h3 => Due.child π0 m p0 k j op _ _ q (h1.mono x) h2 h3

theorem append_two_inj {a b : List Nat} {k j k' j' : Nat} (h : a ++ [k, j] = b ++ [k', j']) : a = b ∧ k = k' ∧ j = j' := by
  have hl : a.length = b.length := by
    have := congrArg List.length h
    simp at this; omega
  have := List.append_inj h hl
  simp at this
  exact ⟨this.1, this.2.1, this.2.2⟩

theorem drop_cons_getElem? {α} {l : List α} {i : Nat} {a : α} {r : List α} (h : l.drop i = a :: r) : l[i]? = some a := by
  have : (l.drop i)[0]? = some a := by rw [h]; simp
  simpa using this

structure UInv (P : Prog) (s : St) (g : G) : Prop where
  ctx : ∀ t, (s.task t).phase = .busy → Ctx P s g t
  inj : ∀ e1 e2, e1 < s.nextEid → e2 < s.nextEid → g.path e1 = g.path e2 → e1 = e2
  below : ∀ e t k j, e < s.nextEid → (s.task t).phase = .busy → g.path e = g.hpath t ++ [k, j] → k < g.opIdx t
  started : ∀ e π k j, e < s.nextEid → g.path e = π ++ [k, j] → Started s g π
  distinct : ∀ t t', (s.task t).phase = .busy → (s.task t').phase = .busy → g.hpath t = g.hpath t' → t = t'
  len : ∀ e, e < s.nextEid → 4 ≤ (g.path e).length
  sound : ∀ e, e < s.nextEid → Due P g.roots (g.path e) (g.dst e) (g.pl e)
  rootsLen : g.roots.length = g.spawns

theorem uinv_init (P : Prog) : UInv P St.init {} := by
  constructor <;> simp [St.init]

theorem ctx_sunk {P : Prog} {s : St} {g : G} {t : Nat} (x : List Nat) (h : Ctx P s g t) : Ctx P s { g with sunk := x } t := by
  cases h with
  | init a b c d e => exact Ctx.init a b c d e
  | spawn i a b c => exact Ctx.spawn i a b c
  | handling e0 a b c d e => exact Ctx.handling e0 a b c d e

theorem uinv_sunk {P : Prog} {s : St} {g : G} (x : List Nat) (h : UInv P s g) : UInv P s { g with sunk := x } :=
  ⟨fun t ht => ctx_sunk x (h.ctx t ht), h.inj, h.below, h.started, h.distinct, h.len, h.sound, h.rootsLen⟩

/-- a queued message has not been handled by anybody -/
theorem queued_not_handled {s : St} (hI : Inv s) (hF : FInv s) {m : Nat} {pk : Packet} (hp : pk ∈ s.mbox m) (m' : Nat) :
    (m', pk.eid) ∉ s.handled := by
  intro hh
  have ha' : (m', pk.eid) ∈ s.arrLog := handled_arrived hI hh
  have hq : pk.eid ∈ arrivals s m := by rw [hI.fifo m]; simp; right; exact ⟨pk, hp, rfl⟩
  have ha : (m, pk.eid) ∈ s.arrLog := mem_arrivals.mp hq
  have hnd0 : (s.arrLog.map (·.2)).Nodup := hF.arrNodup
  have hmm : (m', pk.eid) = (m, pk.eid) := nodup_map_inj (·.2) hnd0 ha' ha rfl
  simp at hmm; subst hmm
  have hnd : (arrivals s m').Nodup := by
    unfold arrivals
    exact List.Nodup.sublist (List.Sublist.map _ List.filter_sublist) hnd0
  rw [hI.fifo m'] at hnd
  have := (List.nodup_append.mp hnd).2.2 pk.eid (mem_handledBy.mpr hh) pk.eid (by simp; exact ⟨pk, hp, rfl⟩)
  exact this rfl

theorem started_mono {s s' : St} {g g' : G} {π : List Nat} (h : Started s g π)
    (hi : ∀ m, m ∈ s.inits → m ∈ s'.inits) (hsp : g.spawns ≤ g'.spawns)
    (hh : ∀ m e0, (m, e0) ∈ s.handled → (m, e0) ∈ s'.handled ∧ g'.path e0 = g.path e0) : Started s' g' π := by
  rcases h with ⟨m, h1, h2⟩ | ⟨i, h1, h2⟩ | ⟨m, e0, h1, h2⟩
  · exact Or.inl ⟨m, hi m h1, h2⟩
  · exact Or.inr (Or.inl ⟨i, by omega, h2⟩)
  · exact Or.inr (Or.inr ⟨m, e0, (hh m e0 h1).1, by rw [(hh m e0 h1).2]; exact h2⟩)

/-- the context of a task that is not touched by the step survives it -/
theorem ctx_mono {P : Prog} {s s' : St} {g g' : G} {t : Nat} (h : Ctx P s g t)
    (hi : ∀ m, m ∈ s.inits → m ∈ s'.inits) (hsp : g.spawns ≤ g'.spawns)
    (hh : ∀ m e0, (m, e0) ∈ s.handled → (m, e0) ∈ s'.handled ∧ g'.path e0 = g.path e0)
    (hhp : g'.hpath t = g.hpath t) (hops : g'.ops t = g.ops t) (hhd : (s'.task t).handling = (s.task t).handling)
    (hr : ∃ x, g'.roots = g.roots ++ x) (hrl : g.roots.length = g.spawns) : Ctx P s' g' t := by
  obtain ⟨x, hx⟩ := hr
  cases h with
  | init a b c d e => exact Ctx.init a b (hi t c) (by rw [hhp]; exact d) (by rw [hops]; exact e)
  | spawn i a b c =>
    refine Ctx.spawn i (by omega) (by rw [hhp]; exact b) ?_
    rw [hx, hops, List.getElem?_append_left (by omega)]; exact c
  | handling e0 a b c d e =>
    refine Ctx.handling e0 (hh t e0 a).1 (by rw [(hh t e0 a).2, hhp]; exact b) (by rw [hhp]; exact c) ?_ (by rw [hops, hhd]; exact e)
    rw [hhp, hhd, hx]; exact d.mono x

end NexoVerif.Net

namespace NexoVerif.Net
set_option linter.unusedSimpArgs false
set_option linter.unusedVariables false
set_option maxHeartbeats 1000000

theorem uinv_step (P : Prog) (l : Label) (s s' : St) (g : G) (hI : Inv s) (hF : FInv s) (hN : IInv P s)
    (hB : BInv s g) (h : UInv P s g) (hs : step P l s = some s') : UInv P s' (gstep P l s g) := by
  obtain ⟨u1, u2, u3, u4, u5, u6, u7, u8⟩ := h
  -- steps that change neither the ghost state nor phases / handled / inits / nextEid (except that a task may leave `busy`)
  have quiet : ∀ (hg : ∃ x, gstep P l s g = { g with sunk := x }) (hn : s'.nextEid = s.nextEid) (hh : s'.handled = s.handled)
      (hi : s'.inits = s.inits)
      (hb : ∀ t, (s'.task t).phase = .busy → (s.task t).phase = .busy ∧ (s'.task t).handling = (s.task t).handling),
      UInv P s' (gstep P l s g) := by
    intro hg hn hh hi hb
    obtain ⟨xs, hxs⟩ := hg
    rw [hxs]
    apply uinv_sunk
    refine ⟨?_, ?_, ?_, ?_, ?_, ?_, ?_, u8⟩
    · intro t ht
      obtain ⟨hb1, hb2⟩ := hb t ht
      exact ctx_mono (u1 t hb1) (fun m hm => hi ▸ hm) (Nat.le_refl _) (fun m e0 he => ⟨hh ▸ he, rfl⟩) rfl rfl hb2 ⟨[], by simp⟩ u8
    · intro e1 e2 h1 h2; rw [hn] at h1 h2; exact u2 e1 e2 h1 h2
    · intro e t k j he ht; rw [hn] at he; exact u3 e t k j he (hb t ht).1
    · intro e π k j he hp; rw [hn] at he
      exact started_mono (u4 e π k j he hp) (fun m hm => hi ▸ hm) (Nat.le_refl _) (fun m e0 h0 => ⟨hh ▸ h0, rfl⟩)
    · intro t t' ht ht'; exact u5 t t' (hb t ht).1 (hb t' ht').1
    · intro e he; rw [hn] at he; exact u6 e he
    · intro e he; rw [hn] at he; exact u7 e he
  cases l with
  | push t0 i =>
    obtain ⟨sub, hsub, hst, hcase⟩ := step_push_eq hs
    rcases hcase with ⟨k, hk, htask, sl, _⟩ | ⟨k, hk, htask, sl, _⟩ | ⟨d, hd, hcap, htask, hmb, ha, hh, hhp, hn, hin, _⟩
    · apply quiet (gstep_push_eq P s g t0 i) sl.nextEid sl.handled sl.inits
      intro t ht; rw [htask] at ht ⊢
      by_cases htt : t = t0
      · subst htt; simp at ht ⊢; exact ht
      · simp only [upd_other _ _ htt] at ht ⊢; exact ⟨ht, trivial⟩
    · apply quiet (gstep_push_eq P s g t0 i) sl.nextEid sl.handled sl.inits
      intro t ht; rw [htask] at ht ⊢; exact ⟨ht, rfl⟩
    · apply quiet (gstep_push_eq P s g t0 i) hn hh hin
      intro t ht; rw [htask] at ht ⊢
      by_cases htt : t = t0
      · subst htt; simp at ht ⊢; exact ht
      · simp only [upd_other _ _ htt] at ht ⊢; exact ⟨ht, trivial⟩
  | opDone t0 =>
    obtain ⟨hph, _, _, htask, sl, _⟩ := step_opDone_eq hs
    apply quiet ⟨g.sunk, rfl⟩ sl.nextEid sl.handled sl.inits
    intro t ht; rw [htask] at ht ⊢
    by_cases htt : t = t0
    · subst htt; simp at ht ⊢; exact ht
    · simp only [upd_other _ _ htt] at ht ⊢; exact ⟨ht, trivial⟩
  | finish t0 =>
    obtain ⟨hph, hcur, hrest, hnb, hcur', hoth, sl, _⟩ := step_finish_eq hs
    apply quiet ⟨g.sunk, rfl⟩ sl.nextEid sl.handled sl.inits
    intro t ht
    by_cases htt : t = t0
    · subst htt; exact absurd ht hnb
    · obtain ⟨o1, _, o3, _, _, _⟩ := hoth t htt
      exact ⟨o1 ▸ ht, o3⟩
  | init m =>
    obtain ⟨hph, hmod, hsim, htask, sla, slh, slhp, sln, slm, sli, _⟩ := step_init_eq hs
    have hnotin : m ∉ s.inits := fun hin => ((hN.started m hmod).mp hin) hph
    have hbusy : ∀ t, (s'.task t).phase = .busy → t ≠ m → (s.task t).phase = .busy ∧ (s'.task t).handling = (s.task t).handling := by
      intro t ht htm; rw [htask] at ht ⊢; simp only [upd_other _ _ htm] at ht ⊢; exact ⟨ht, trivial⟩
    have hst : ∀ π, Started s g π → Started s' (gstep P (.init m) s g) π := by
      intro π hπ
      exact started_mono hπ (fun x hx => by rw [sli]; simp [hx]) (Nat.le_refl _) (fun a b hab => ⟨slh ▸ hab, rfl⟩)
    -- nothing has been created below the fresh root [0, m]
    have hfresh : ∀ e k j, e < s.nextEid → g.path e ≠ [0, m] ++ [k, j] := by
      intro e k j he hp
      rcases u4 e [0, m] k j he hp with ⟨m', h1, h2⟩ | ⟨i, _, h2⟩ | ⟨m', e0, h1, h2⟩
      · simp at h2; subst h2; exact hnotin h1
      · simp at h2
      · have := u6 e0 (hB.arr m' e0 (handled_arrived hI h1)).1
        rw [h2] at this; simp at this
    refine ⟨?_, ?_, ?_, ?_, ?_, ?_, ?_, u8⟩
    · intro t ht
      by_cases htm : t = m
      · subst htm
        exact Ctx.init hmod hsim (by rw [sli]; simp) (by simp [gstep]) (by simp [gstep])
      · obtain ⟨hb1, hb2⟩ := hbusy t ht htm
        exact ctx_mono (u1 t hb1) (fun x hx => by rw [sli]; simp [hx]) (Nat.le_refl _) (fun a b hab => ⟨slh ▸ hab, rfl⟩)
          (by simp [gstep, upd_other _ _ htm]) (by simp [gstep, upd_other _ _ htm]) hb2 ⟨[], by simp [gstep]⟩ u8
    · intro e1 e2 h1 h2; rw [sln] at h1 h2; exact u2 e1 e2 h1 h2
    · intro e t k j he ht hp
      rw [sln] at he
      by_cases htm : t = m
      · subst htm; simp [gstep] at hp; exact absurd hp (by simpa using hfresh e k j he)
      · simp only [gstep, upd_other _ _ htm] at hp ⊢; exact u3 e t k j he (hbusy t ht htm).1 hp
    · intro e π k j he hp; rw [sln] at he; exact hst π (u4 e π k j he hp)
    · intro t t' ht ht' hp
      by_cases htm : t = m <;> by_cases htm' : t' = m
      · rw [htm, htm']
      · subst htm
        simp only [gstep, upd_same, upd_other _ _ htm'] at hp
        have := (u1 t' (hbusy t' ht' htm').1)
        cases this with
        | init _ _ _ h4 _ => rw [h4] at hp; simp at hp; exact absurd hp.symm htm'
        | spawn i _ h4 _ => rw [h4] at hp; simp at hp
        | handling e0 _ _ h4 _ _ => rw [← hp] at h4; simp at h4
      · subst htm'
        simp only [gstep, upd_same, upd_other _ _ htm] at hp
        have := (u1 t (hbusy t ht htm).1)
        cases this with
        | init _ _ _ h4 _ => rw [h4] at hp; simp at hp; exact absurd hp htm
        | spawn i _ h4 _ => rw [h4] at hp; simp at hp
        | handling e0 _ _ h4 _ _ => rw [hp] at h4; simp at h4
      · simp only [gstep, upd_other _ _ htm, upd_other _ _ htm'] at hp
        exact u5 t t' (hbusy t ht htm).1 (hbusy t' ht' htm').1 hp
    · intro e he; rw [sln] at he; exact u6 e he
    · intro e he; rw [sln] at he; exact u7 e he
  | spawn t0 ops =>
    obtain ⟨hnm, hnb, hcur, htask, sl, _⟩ := step_spawn_eq hs
    have hbusy : ∀ t, (s'.task t).phase = .busy → t ≠ t0 → (s.task t).phase = .busy ∧ (s'.task t).handling = (s.task t).handling := by
      intro t ht htm; rw [htask] at ht ⊢; simp only [upd_other _ _ htm] at ht ⊢; exact ⟨ht, trivial⟩
    have hst : ∀ π, Started s g π → Started s' (gstep P (.spawn t0 ops) s g) π := by
      intro π hπ
      exact started_mono hπ (fun x hx => by rw [sl.inits]; exact hx) (by simp [gstep]) (fun a b hab => ⟨sl.handled ▸ hab, rfl⟩)
    have hfresh : ∀ e k j, e < s.nextEid → g.path e ≠ [1, g.spawns] ++ [k, j] := by
      intro e k j he hp
      rcases u4 e [1, g.spawns] k j he hp with ⟨m', _, h2⟩ | ⟨i, h1, h2⟩ | ⟨m', e0, h1, h2⟩
      · simp at h2
      · simp at h2; omega
      · have := u6 e0 (hB.arr m' e0 (handled_arrived hI h1)).1
        rw [h2] at this; simp at this
    refine ⟨?_, ?_, ?_, ?_, ?_, ?_, ?_, by simp [gstep, u8]⟩
    · intro t ht
      by_cases htm : t = t0
      · subst htm
        exact Ctx.spawn g.spawns (by simp [gstep]) (by simp [gstep]) (by simp [gstep, ← u8])
      · obtain ⟨hb1, hb2⟩ := hbusy t ht htm
        exact ctx_mono (u1 t hb1) (fun x hx => by rw [sl.inits]; exact hx) (by simp [gstep]) (fun a b hab => ⟨sl.handled ▸ hab, rfl⟩)
          (by simp [gstep, upd_other _ _ htm]) (by simp [gstep, upd_other _ _ htm]) hb2 ⟨[ops], by simp [gstep]⟩ u8
    · intro e1 e2 h1 h2; rw [sl.nextEid] at h1 h2; exact u2 e1 e2 h1 h2
    · intro e t k j he ht hp
      rw [sl.nextEid] at he
      by_cases htm : t = t0
      · subst htm; simp [gstep] at hp; exact absurd hp (by simpa using hfresh e k j he)
      · simp only [gstep, upd_other _ _ htm] at hp ⊢; exact u3 e t k j he (hbusy t ht htm).1 hp
    · intro e π k j he hp; rw [sl.nextEid] at he; exact hst π (u4 e π k j he hp)
    · intro t t' ht ht' hp
      have key : ∀ u, u ≠ t0 → (s'.task u).phase = .busy → g.hpath u ≠ [1, g.spawns] := by
        intro u hu hbu heq
        cases (u1 u (hbusy u hbu hu).1) with
        | init _ _ _ h4 _ => rw [h4] at heq; simp at heq
        | spawn i hi h4 _ => rw [h4] at heq; simp at heq; omega
        | handling e0 _ _ h4 _ _ => rw [heq] at h4; simp at h4
      by_cases htm : t = t0 <;> by_cases htm' : t' = t0
      · rw [htm, htm']
      · subst htm
        simp only [gstep, upd_same, upd_other _ _ htm'] at hp
        exact absurd hp.symm (key t' htm' ht')
      · subst htm'
        simp only [gstep, upd_same, upd_other _ _ htm] at hp
        exact absurd hp (key t htm ht)
      · simp only [gstep, upd_other _ _ htm, upd_other _ _ htm'] at hp
        exact u5 t t' (hbusy t ht htm).1 (hbusy t' ht' htm').1 hp
    · intro e he; rw [sl.nextEid] at he; exact u6 e he
    · intro e he; rw [sl.nextEid] at he
      have := u7 e he
      simp only [gstep]; exact this.mono [ops]
  | start t0 =>
    obtain ⟨op, ops, hph, hcur, hrest, htask, hn, ha, hh, hhp, hmb, hin, _⟩ := step_start_eq hs
    have hbusy : ∀ t, (s'.task t).phase = .busy → (s.task t).phase = .busy ∧ (s'.task t).handling = (s.task t).handling := by
      intro t ht; rw [htask] at ht ⊢
      by_cases htt : t = t0
      · subst htt; simp at ht ⊢; exact ht
      · simp only [upd_other _ _ htt] at ht ⊢; exact ⟨ht, trivial⟩
    have hold : ∀ e, e < s.nextEid → decide (s.nextEid ≤ e ∧ e < s.nextEid + op.length) = false := by
      intro e he; simp; omega
    have hnew : ∀ e, s.nextEid ≤ e → e < s.nextEid + op.length → decide (s.nextEid ≤ e ∧ e < s.nextEid + op.length) = true := by
      intro e h1 h2; simp; omega
    -- the ghost state after the step, component by component
    have gpath_old : ∀ e, e < s.nextEid → (gstep P (.start t0) s g).path e = g.path e := by
      intro e he; simp only [gstep, hrest, hold e he, Bool.false_eq_true, if_false]
    have gpath_new : ∀ e, s.nextEid ≤ e → e < s.nextEid + op.length →
        (gstep P (.start t0) s g).path e = g.hpath t0 ++ [g.opIdx t0, e - s.nextEid] := by
      intro e h1 h2; simp only [gstep, hrest, hnew e h1 h2, if_true]
    have ghp : (gstep P (.start t0) s g).hpath = g.hpath := by simp only [gstep, hrest]
    have gops : (gstep P (.start t0) s g).ops = g.ops := by simp only [gstep, hrest]
    have groots : (gstep P (.start t0) s g).roots = g.roots := by simp only [gstep, hrest]
    have gsp : (gstep P (.start t0) s g).spawns = g.spawns := by simp only [gstep, hrest]
    have gidx : (gstep P (.start t0) s g).opIdx = upd g.opIdx t0 (g.opIdx t0 + 1) := by simp only [gstep, hrest]
    have hctx0 := u1 t0 hph
    have hhandled_old : ∀ a b, (a, b) ∈ s.handled → b < s.nextEid := fun a b hab => (hB.arr a b (handled_arrived hI hab)).1
    have hst : ∀ π, Started s g π → Started s' (gstep P (.start t0) s g) π := by
      intro π hπ
      exact started_mono hπ (fun x hx => by rw [hin]; exact hx) (by rw [gsp]; exact Nat.le_refl _)
        (fun a b hab => ⟨hh ▸ hab, gpath_old b (hhandled_old a b hab)⟩)
    refine ⟨?_, ?_, ?_, ?_, ?_, ?_, ?_, by rw [groots, gsp]; exact u8⟩
    · intro t ht
      obtain ⟨hb1, hb2⟩ := hbusy t ht
      exact ctx_mono (u1 t hb1) (fun x hx => by rw [hin]; exact hx) (by rw [gsp]; exact Nat.le_refl _)
        (fun a b hab => ⟨hh ▸ hab, gpath_old b (hhandled_old a b hab)⟩)
        (by rw [ghp]) (by rw [gops]) hb2 ⟨[], by rw [groots]; simp⟩ u8
    · intro e1 e2 h1 h2 hp
      rw [hn] at h1 h2
      by_cases o1 : e1 < s.nextEid <;> by_cases o2 : e2 < s.nextEid
      · rw [gpath_old e1 o1, gpath_old e2 o2] at hp; exact u2 e1 e2 o1 o2 hp
      · rw [gpath_old e1 o1, gpath_new e2 (by omega) h2] at hp
        have := u3 e1 t0 _ _ o1 hph hp; omega
      · rw [gpath_new e1 (by omega) h1, gpath_old e2 o2] at hp
        have := u3 e2 t0 _ _ o2 hph hp.symm; omega
      · rw [gpath_new e1 (by omega) h1, gpath_new e2 (by omega) h2] at hp
        have := (append_two_inj hp).2.2; omega
    · intro e t k j he ht hp
      rw [hn] at he
      rw [ghp] at hp
      rw [gidx]
      by_cases o1 : e < s.nextEid
      · rw [gpath_old e o1] at hp
        have := u3 e t k j o1 (hbusy t ht).1 hp
        by_cases htt : t = t0
        · subst htt; simp; omega
        · simp only [upd_other _ _ htt]; exact this
      · rw [gpath_new e (by omega) he] at hp
        obtain ⟨h1, h2, _⟩ := append_two_inj hp
        have htt : t0 = t := u5 t0 t hph (hbusy t ht).1 h1
        subst htt; simp; omega
    · intro e π k j he hp
      rw [hn] at he
      by_cases o1 : e < s.nextEid
      · rw [gpath_old e o1] at hp; exact hst π (u4 e π k j o1 hp)
      · rw [gpath_new e (by omega) he] at hp
        obtain ⟨h1, _, _⟩ := append_two_inj hp
        rw [← h1]; exact hst _ hctx0.started
    · intro t t' ht ht' hp; rw [ghp] at hp; exact u5 t t' (hbusy t ht).1 (hbusy t' ht').1 hp
    · intro e he
      rw [hn] at he
      by_cases o1 : e < s.nextEid
      · rw [gpath_old e o1]; exact u6 e o1
      · rw [gpath_new e (by omega) he]; have := hctx0.len; simp; omega
    · intro e he
      rw [hn] at he
      rw [groots]
      by_cases o1 : e < s.nextEid
      · have hd' : (gstep P (.start t0) s g).dst e = g.dst e := by simp only [gstep, hrest, hold e o1, Bool.false_eq_true, if_false]
        have hpl : (gstep P (.start t0) s g).pl e = g.pl e := by simp only [gstep, hrest, hold e o1, Bool.false_eq_true, if_false]
        rw [gpath_old e o1, hpl, hd']; exact u7 e o1
      · have hge : s.nextEid ≤ e := by omega
        rw [gpath_new e hge he]
        have hj : e - s.nextEid < op.length := by omega
        obtain ⟨⟨dd, pp, qq⟩, hget⟩ : ∃ x, op[e - s.nextEid]? = some x := ⟨_, List.getElem?_eq_getElem hj⟩
        have hdst : (gstep P (.start t0) s g).dst e = dd := by
          simp only [gstep, hrest, hnew e hge he, if_true]
          rw [List.getD_eq_getElem?_getD, hget]; rfl
        have hpl : (gstep P (.start t0) s g).pl e = pp := by
          simp only [gstep, hrest, hnew e hge he, if_true]
          rw [List.getD_eq_getElem?_getD, hget]; rfl
        rw [hdst, hpl]
        have hopk : (g.ops t0)[g.opIdx t0]? = some op := by
          have := hB.rest t0 hph
          rw [hrest] at this
          exact drop_cons_getElem? this.symm
        cases hctx0 with
        | init a b c d' e' =>
          rw [d']; rw [e'] at hopk
          exact Due.init t0 _ _ op dd pp qq a b hopk hget
        | spawn i a b c =>
          rw [b]
          exact Due.spawn i _ _ (g.ops t0) op dd pp qq c hopk hget
        | handling e0 a b c d' e' =>
          rw [e'] at hopk
          exact Due.child _ t0 _ _ _ op dd pp qq d' hopk hget
  | deliver m =>
    obtain ⟨p, ps, hph, hmb, htask, hmb', ha, hh, hhp, hn, hin⟩ := step_deliver_eq hs
    have hp : p ∈ s.mbox m := by rw [hmb]; simp
    obtain ⟨hpe, hpd, hpp⟩ := hB.boxes m p hp
    have hbusy : ∀ t, (s'.task t).phase = .busy → t ≠ m → (s.task t).phase = .busy ∧ (s'.task t).handling = (s.task t).handling := by
      intro t ht htm; rw [htask] at ht ⊢; simp only [upd_other _ _ htm] at ht ⊢; exact ⟨ht, trivial⟩
    have gpath : (gstep P (.deliver m) s g).path = g.path := by simp only [gstep, hmb]
    have gdst : (gstep P (.deliver m) s g).dst = g.dst := by simp only [gstep, hmb]
    have gpl : (gstep P (.deliver m) s g).pl = g.pl := by simp only [gstep, hmb]
    have groots : (gstep P (.deliver m) s g).roots = g.roots := by simp only [gstep, hmb]
    have gsp : (gstep P (.deliver m) s g).spawns = g.spawns := by simp only [gstep, hmb]
    have ghp : (gstep P (.deliver m) s g).hpath = upd g.hpath m (g.path p.eid) := by simp only [gstep, hmb]
    have gops : (gstep P (.deliver m) s g).ops = upd g.ops m (P.react m p.payload) := by simp only [gstep, hmb]
    have gidx : (gstep P (.deliver m) s g).opIdx = upd g.opIdx m 0 := by simp only [gstep, hmb]
    have hnoth : ∀ m', (m', p.eid) ∉ s.handled := queued_not_handled hI hF hp
    have hst : ∀ π, Started s g π → Started s' (gstep P (.deliver m) s g) π := by
      intro π hπ
      exact started_mono hπ (fun x hx => by rw [hin]; exact hx) (by rw [gsp]; exact Nat.le_refl _)
        (fun a b hab => ⟨by rw [hh]; simp [hab], by rw [gpath]⟩)
    -- the path of the delivered event is not the path of anything that has begun
    have hnotstarted : ¬ Started s g (g.path p.eid) := by
      rintro (⟨m', _, h2⟩ | ⟨i, _, h2⟩ | ⟨m', e0, h1, h2⟩)
      · have := u6 p.eid hpe; rw [h2] at this; simp at this
      · have := u6 p.eid hpe; rw [h2] at this; simp at this
      · have he0 := (hB.arr m' e0 (handled_arrived hI h1)).1
        have := u2 e0 p.eid he0 hpe h2
        subst this; exact hnoth m' h1
    refine ⟨?_, ?_, ?_, ?_, ?_, ?_, ?_, by rw [groots, gsp]; exact u8⟩
    · intro t ht
      by_cases htm : t = m
      · subst htm
        refine Ctx.handling p.eid (by rw [hh]; simp) (by rw [gpath, ghp]; simp) (by rw [ghp]; simp; exact u6 p.eid hpe) ?_ ?_
        · rw [ghp, groots, htask]; simp
          have := u7 p.eid hpe
          rw [hpd, hpp] at this; exact this.box
        · rw [gops, htask]; simp
      · obtain ⟨hb1, hb2⟩ := hbusy t ht htm
        exact ctx_mono (u1 t hb1) (fun x hx => by rw [hin]; exact hx) (by rw [gsp]; exact Nat.le_refl _)
          (fun a b hab => ⟨by rw [hh]; simp [hab], by rw [gpath]⟩)
          (by rw [ghp]; simp [upd_other _ _ htm]) (by rw [gops]; simp [upd_other _ _ htm]) hb2 ⟨[], by rw [groots]; simp⟩ u8
    · intro e1 e2 h1 h2 hpq; rw [hn] at h1 h2; rw [gpath] at hpq; exact u2 e1 e2 h1 h2 hpq
    · intro e t k j he ht hpq
      rw [hn] at he; rw [gpath, ghp] at hpq; rw [gidx]
      by_cases htm : t = m
      · subst htm
        simp at hpq
        exact absurd (u4 e _ k j he hpq) hnotstarted
      · simp only [upd_other _ _ htm] at hpq ⊢; exact u3 e t k j he (hbusy t ht htm).1 hpq
    · intro e π k j he hpq; rw [hn] at he; rw [gpath] at hpq; exact hst π (u4 e π k j he hpq)
    · intro t t' ht ht' hpq
      rw [ghp] at hpq
      have key : ∀ u, u ≠ m → (s'.task u).phase = .busy → g.hpath u ≠ g.path p.eid := by
        intro u hu hbu heq
        exact hnotstarted (heq ▸ (u1 u (hbusy u hbu hu).1).started)
      by_cases htm : t = m <;> by_cases htm' : t' = m
      · rw [htm, htm']
      · subst htm; simp only [upd_same, upd_other _ _ htm'] at hpq; exact absurd hpq.symm (key t' htm' ht')
      · subst htm'; simp only [upd_same, upd_other _ _ htm] at hpq; exact absurd hpq (key t htm ht)
      · simp only [upd_other _ _ htm, upd_other _ _ htm'] at hpq
        exact u5 t t' (hbusy t ht htm).1 (hbusy t' ht' htm').1 hpq
    · intro e he; rw [hn] at he; rw [gpath]; exact u6 e he
    · intro e he; rw [hn] at he; rw [gpath, gpl, gdst, groots]; exact u7 e he

end NexoVerif.Net
