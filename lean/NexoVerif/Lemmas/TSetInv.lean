import NexoVerif.Model.TSet
namespace NexoVerif.TSet
set_option linter.unusedSimpArgs false
set_option linter.unusedVariables false
set_option maxHeartbeats 4000000

/-- the `next` words thread the list: each element points to the following one, the last one to EMPTY -/
def Linked (next : Nat → Nx) : List Nat → Prop
  | [] => True
  | a :: l => next a = ofIx l.head? ∧ Linked next l

/-- waker thread `w` has claimed task `i` and not yet pushed it -/
def Pusher (s : St) (w i : Nat) : Prop :=
  w < s.m ∧ s.wt w = i ∧ ((∃ h, s.wpc w = .push h) ∨ (∃ h, s.wpc w = .fixNext h))

structure Inv (s : St) : Prop where
  headIx : s.head.ix = s.stack.head?
  curIx : s.cur = s.iter.head?
  linkS : Linked s.next s.stack
  linkI : Linked s.next s.iter
  nodup : (s.stack ++ s.iter).Nodup
  bound : ∀ i ∈ s.stack ++ s.iter, i < s.n
  wtBound : ∀ w, w < s.m → s.wpc w ≠ .idle → s.wt w < s.n
  /-- a task whose `next` is not SLEEPING is in one of the two chains or has a pusher -/
  owned : ∀ i, i < s.n → s.next i ≠ .sleeping → i ∈ s.stack ∨ i ∈ s.iter ∨ ∃ w, Pusher s w i
  /-- a claimed task is in neither chain, its `next` is not SLEEPING, and while the pusher is about to CAS the head its
  `next` is the index it expects in the head -/
  pusher : ∀ w i, Pusher s w i → i ∉ s.stack ∧ i ∉ s.iter ∧ s.next i ≠ .sleeping ∧
    (∀ h, s.wpc w = .push h → s.next i = ofIx h.ix)
  unique : ∀ w w' i, Pusher s w i → Pusher s w' i → w = w'
  need : ∀ i, s.need i = true → s.next i ≠ .sleeping
  noErr : s.err = false

theorem ofIx_ne_sleeping (o : Option Nat) : ofIx o ≠ .sleeping := by cases o <;> simp [ofIx]

theorem linked_mem_ne_sleeping (next : Nat → Nx) (l : List Nat) (h : Linked next l) : ∀ a ∈ l, next a ≠ .sleeping := by
  induction l with
  | nil => intro a ha; cases ha
  | cons b l ih =>
    intro a ha
    simp only [List.mem_cons] at ha
    rcases ha with rfl | ha
    · rw [h.1]; exact ofIx_ne_sleeping _
    · exact ih h.2 a ha

/-- changing `next` outside the list keeps it linked -/
theorem linked_upd (next : Nat → Nx) (l : List Nat) (i : Nat) (v : Nx) (hi : i ∉ l) (h : Linked next l) :
    Linked (upd next i v) l := by
  induction l with
  | nil => trivial
  | cons a l ih =>
    simp only [List.mem_cons, not_or] at hi
    exact ⟨by rw [upd_other _ _ (Ne.symm hi.1)]; exact h.1, ih hi.2 h.2⟩

theorem inv_init (n m : Nat) : Inv (St.init n m) := by
  refine ⟨rfl, rfl, trivial, trivial, by simp [St.init], by simp [St.init], ?_, ?_, ?_, ?_, ?_, rfl⟩
  · intro w _ h; simp [St.init] at h
  · intro i _ h; simp [St.init] at h
  · rintro w i ⟨_, _, ⟨h, hp⟩ | ⟨h, hp⟩⟩ <;> simp [St.init] at hp
  · rintro w w' i ⟨_, _, ⟨h, hp⟩ | ⟨h, hp⟩⟩ <;> simp [St.init] at hp
  · intro i h; simp [St.init] at h

end NexoVerif.TSet
