import NexoVerif.Lemmas.SeqLockStep
/-! Reader-side invariant of M-SEQLOCK. -/
namespace NexoVerif.SeqLock

set_option maxHeartbeats 1000000

def RPc.rank : RPc → Nat
  | .start => 0 | .seqLoaded => 1 | .d1Loaded => 2 | .d2Loaded => 3 | .fenced => 4 | .done => 5

def inRead (p : RPc) : Prop := 1 ≤ p.rank ∧ p.rank ≤ 4

structure RInv (s : St) : Prop where
  first : inRead s.rpc → s.rv % 2 = 0 ∧ s.rv ≤ 2 * s.rcur.d1 ∧ s.rv ≤ 2 * s.rcur.d2
  a : 2 ≤ s.rpc.rank → s.rpc.rank ≤ 4 →
        s.rv ≤ 2 * s.ja ∧ (1 ≤ s.ja → 2 * s.ja ≤ s.racq.seq + 1) ∧ s.lastOk ≤ s.ja ∧
        ∃ m : Msg, s.d1M[s.ja]? = some m ∧ m.val = s.ra
  b : 3 ≤ s.rpc.rank → s.rpc.rank ≤ 4 →
        s.rv ≤ 2 * s.jb ∧ (1 ≤ s.jb → 2 * s.jb ≤ s.racq.seq + 1) ∧
        ∃ m : Msg, s.d2M[s.jb]? = some m ∧ m.val = s.rb
  fenced : s.rpc = .fenced → s.racq.seq ≤ s.rcur.seq
  mono : s.lastOk ≤ s.rcur.d1
  ok : s.rpc = .done → ∀ x y, s.result = some (some (x, y)) →
        s.ja = s.jb ∧ s.lastOk = s.ja ∧
        ∃ m1 m2 : Msg, s.d1M[s.ja]? = some m1 ∧ m1.val = x ∧ s.d2M[s.jb]? = some m2 ∧ m2.val = y

theorem rinv_init (a b : Nat) : RInv (init a b) := by
  constructor <;> simp [init, inRead, RPc.rank, View.zero]

theorem getElem?_append_some {α} {l : List α} {i : Nat} {m : α} (x : α) (h : l[i]? = some m) :
    (l ++ [x])[i]? = some m := by
  have hi : i < l.length := by
    rcases Nat.lt_or_ge i l.length with h' | h'
    · exact h'
    · rw [List.getElem?_eq_none h'] at h; simp at h
  rw [List.getElem?_append_left hi]; exact h

/-- writer steps only append to memory and never touch the reader: RInv is preserved -/
theorem rinv_writer (o : Ords) (s s' : St) (l : Label) (hl : (∃ a b, l = .wBegin a b) ∨ l = .wStep)
    (h : RInv s) (hs : step o l s = some s') : RInv s' := by
  obtain ⟨h1, h2, h3, h4, h5, h6⟩ := h
  rcases hl with ⟨a, b, rfl⟩ | rfl
  · simp only [step] at hs
    split at hs
    · split at hs
      · simp only [Option.some.injEq] at hs; subst hs; exact ⟨h1, h2, h3, h4, h5, h6⟩
      · simp at hs
    · simp at hs
  · simp only [step] at hs
    split at hs
    · simp at hs
    all_goals
      simp only [Option.some.injEq] at hs; subst hs
      refine ⟨h1, ?_, ?_, h4, h5, ?_⟩
      · intro r1 r2
        obtain ⟨x1, x2, x3, m, hm, hv⟩ := h2 r1 r2
        exact ⟨x1, x2, x3, m, (by first | exact hm | exact getElem?_append_some _ hm), hv⟩
      · intro r1 r2
        obtain ⟨x1, x2, m, hm, hv⟩ := h3 r1 r2
        exact ⟨x1, x2, m, (by first | exact hm | exact getElem?_append_some _ hm), hv⟩
      · intro hd x y hr
        obtain ⟨e1, e2, m1, m2, hm1, hv1, hm2, hv2⟩ := h6 hd x y hr
        exact ⟨e1, e2, m1, m2, (by first | exact hm1 | exact getElem?_append_some _ hm1), hv1,
               (by first | exact hm2 | exact getElem?_append_some _ hm2), hv2⟩

end NexoVerif.SeqLock
