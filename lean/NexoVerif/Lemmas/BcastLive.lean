import NexoVerif.Lemmas.BcastArm
/-! Completion: a broadcast whose missing repliers replied and woke their sub-tasks returns `Ready` (M-BCAST). -/
namespace NexoVerif.Bcast
set_option linter.unusedSimpArgs false
set_option linter.unusedVariables false

/-- connection `c`'s replier has a reply ready and will not fail -/
def SlotReady (s : St) (c : Nat) : Prop := ∃ sl, s.slots[c]? = some sl ∧ sl.reply.isSome = true ∧ sl.fail = false

theorem subPoll_ready_of (s : St) (c : Nat) (wk : WK) (h : SlotReady s c) : ∃ v, (subPoll s c wk).2 = .ready v := by
  obtain ⟨sl, hsl, hr, hf⟩ := h
  unfold subPoll
  simp only [hsl, hf, Bool.false_eq_true, if_false]
  cases hrep : sl.reply with
  | none => rw [hrep] at hr; simp at hr
  | some r => exact ⟨r, rfl⟩

theorem subPoll_other_slot (s : St) (c c' : Nat) (wk : WK) (h : c' ≠ c) :
    (subPoll s c wk).1.slots[c']? = s.slots[c']? := by
  unfold subPoll
  cases hsl : s.slots[c]? with
  | none => rfl
  | some sl =>
    simp only
    split
    · simp only; rw [List.getElem?_set_ne (Ne.symm h)]
    · split <;> (simp only; rw [List.getElem?_set_ne (Ne.symm h)])

theorem nodup_getElem?_inj {l : List Nat} (hn : l.Nodup) {i j c : Nat} (hi : l[i]? = some c) (hj : l[j]? = some c) : i = j := by
  have hil : i < l.length := by
    rcases Nat.lt_or_ge i l.length with h | h
    · exact h
    · rw [List.getElem?_eq_none h] at hi; simp at hi
  have hjl : j < l.length := by
    rcases Nat.lt_or_ge j l.length with h | h
    · exact h
    · rw [List.getElem?_eq_none h] at hj; simp at hj
  rw [List.getElem?_eq_getElem hil] at hi
  rw [List.getElem?_eq_getElem hjl] at hj
  simp at hi hj
  exact (List.getElem_inj (h₀ := hil) (h₁ := hjl) hn).mp (by rw [hi, hj])

/-- polling the scheduled sub-futures fills every empty slot whose sub-future is scheduled and whose replier is
ready; when all empty slots are like that, nothing stays pending -/
theorem pollSubs_fills (subs : List Nat) (hn : subs.Nodup) :
    ∀ (l : List Nat) (s : St) (pending : Nat), s.taskCount = subs.length → Filled subs s pending →
      (∀ i c, subs[i]? = some c → (s.outputs[i]?).join = none → i ∈ l ∧ SlotReady s c) →
      (pollSubs subs l s pending).2 = some 0 := by
  intro l
  induction l with
  | nil =>
    intro s pending htc hF hall
    simp only [pollSubs]
    -- nothing is empty
    have : unfilled s.outputs subs.length = 0 := by
      unfold unfilled
      apply List.countP_eq_zero.mpr
      intro x hx hnone
      obtain ⟨i, hi, hxi⟩ := List.getElem_of_mem hx
      have hik : i < subs.length := by simp at hi; omega
      rw [List.getElem_take] at hxi
      obtain ⟨c, hc⟩ : ∃ c, subs[i]? = some c := ⟨subs[i], List.getElem?_eq_getElem hik⟩
      have hlt : i < s.outputs.length := by have := hF.len; omega
      have hj : (s.outputs[i]?).join = none := by
        rw [List.getElem?_eq_getElem hlt, hxi]
        cases x with
        | none => rfl
        | some v => simp at hnone
      exact absurd (hall i c hc hj).1 (by simp)
    rw [hF.cnt, this]
  | cons i r ih =>
    intro s pending htc hF hall
    simp only [pollSubs]
    by_cases hcond : i < s.taskCount ∧ (s.outputs[i]?).join = none
    · rw [if_pos hcond]
      have hi : i < subs.length := by rw [← htc]; exact hcond.1
      have hci : subs[i]? = some subs[i] := List.getElem?_eq_getElem hi
      rw [hci]
      simp only
      obtain ⟨v, hv⟩ := subPoll_ready_of s subs[i] (.task i) (hall i subs[i] hci hcond.2).2
      have hsp := subPoll_spec s subs[i] (.task i)
      cases hres : subPoll s subs[i] (.task i) with
      | mk s1 res =>
        rw [hres] at hv hsp
        simp only at hv hsp
        subst hv
        simp only
        have hg := (hsp.2.1 v rfl).1
        have hF1 := filled_set subs s s1 pending i subs[i] v hF hsp.1.outputs hg hi hci hcond.2
        apply ih _ _ (by simp [hsp.1.taskCount, htc]) hF1
        intro j c hjc hjn
        simp only [hsp.1.outputs] at hjn
        have hji : j ≠ i := by
          intro h; subst h
          rw [List.getElem?_set_self (by have := hF.len; omega)] at hjn
          simp at hjn
        rw [List.getElem?_set_ne (Ne.symm hji)] at hjn
        obtain ⟨hm, sl, hsl, hr, hf⟩ := hall j c hjc hjn
        refine ⟨by simp at hm; rcases hm with h | h; exact absurd h hji; exact h, sl, ?_, hr, hf⟩
        have hcc : c ≠ subs[i] := by
          intro h
          exact hji (nodup_getElem?_inj hn hjc (h ▸ hci))
        have := subPoll_other_slot s subs[i] c (.task i) hcc
        rw [hres] at this
        simp only at this ⊢
        rw [this]; exact hsl
    · rw [if_neg hcond]
      apply ih s pending htc hF
      intro j c hjc hjn
      obtain ⟨hm, hr⟩ := hall j c hjc hjn
      refine ⟨?_, hr⟩
      simp at hm
      rcases hm with h | h
      · subst h
        have hjk : j < subs.length := by
          rcases Nat.lt_or_ge j subs.length with h | h
          · exact h
          · rw [List.getElem?_eq_none h] at hjc; simp at hjc
        exact absurd ⟨by rw [htc]; exact hjk, hjn⟩ hcond
      · exact h

theorem accepted_nodup (senders : List Sender) (arg : Nat) : (accepted senders arg).Nodup := by
  unfold accepted
  exact List.Nodup.sublist List.filter_sublist (List.nodup_range)

theorem exists_unfilled (o : List (Option Nat)) (k : Nat) (hk : k ≤ o.length) (h : unfilled o k ≠ 0) :
    ∃ i, i < k ∧ (o[i]?).join = none := by
  unfold unfilled at h
  have hpos : 0 < (o.take k).countP Option.isNone := Nat.pos_of_ne_zero h
  obtain ⟨x, hx, hnone⟩ := List.countP_pos_iff.mp hpos
  obtain ⟨i, hi, hxi⟩ := List.getElem_of_mem hx
  have hik : i < k := by simp at hi; omega
  refine ⟨i, hik, ?_⟩
  rw [List.getElem_take] at hxi
  rw [List.getElem?_eq_getElem (by omega), hxi]
  cases x with
  | none => rfl
  | some v => simp at hnone

/-- **a broadcast whose missing repliers have all replied and woken their sub-tasks completes at the next poll** -/
theorem completes_when_all_replied (s : St) (hw : WF s) (subs : List Nat) (pending consume : Nat)
    (hf : s.fut = some (.multi subs pending false consume))
    (hall : ∀ i c, subs[i]? = some c → (s.outputs[i]?).join = none → i ∈ s.stack ∧ SlotReady s c) :
    ∃ vals, (poll s).2 = .ready vals := by
  have hfut := hw.futOk
  rw [hf] at hfut
  simp only at hfut
  obtain ⟨_, htc, hF, hacc, hpos⟩ := hfut
  have hn : subs.Nodup := by rw [hacc]; exact accepted_nodup _ _
  unfold poll
  rw [hf]
  simp only
  unfold pollMulti
  simp only [Bool.false_eq_true, if_false]
  -- the stack is not empty: some slot is empty and its sub-task is scheduled
  obtain ⟨i0, hi0, hnone0⟩ := exists_unfilled s.outputs subs.length hF.len (by rw [← hF.cnt]; exact hpos)
  have hst : s.stack ≠ [] := by
    intro h
    have := (hall i0 subs[i0] (List.getElem?_eq_getElem hi0) hnone0).1
    rw [h] at this; simp at this
  have hfill := pollSubs_fills subs hn s.stack { s with stack := [], countdown := 0 } pending htc
    ⟨hF.len, hF.cnt, hF.src⟩ (by
      intro i c hic hnone
      obtain ⟨h1, h2⟩ := hall i c hic hnone
      exact ⟨h1, h2⟩)
  show ∃ vals, (loopPoll subs consume 2 s pending).2 = .ready vals
  simp only [loopPoll, hst, if_false]
  cases hres : pollSubs subs s.stack { s with stack := [], countdown := 0 } pending with
  | mk s1 r =>
    rw [hres] at hfill
    simp only at hfill
    subst hfill
    simp only [if_true]
    exact ⟨_, rfl⟩

end NexoVerif.Bcast

namespace NexoVerif.Bcast
set_option linter.unusedSimpArgs false
set_option linter.unusedVariables false

theorem firstPass_fills (subs : List Nat) (hn : subs.Nodup) :
    ∀ (cs : List Nat) (i : Nat) (s : St) (pending : Nat),
      (∀ j, j < cs.length → subs[i + j]? = cs[j]?) → i + cs.length = subs.length →
      (∀ j c, i ≤ j → subs[j]? = some c → SlotReady s c) →
      (firstPass i cs s pending).2 = some (pending - cs.length) := by
  intro cs
  induction cs with
  | nil => intro i s p _ _ _; simp [firstPass]
  | cons c r ih =>
    intro i s pending hcs hlen hall
    have hci : subs[i]? = some c := by simpa using hcs 0 (by simp)
    obtain ⟨v, hv⟩ := subPoll_ready_of s c (.task i) (hall i c (Nat.le_refl _) hci)
    simp only [firstPass]
    cases hres : subPoll s c (.task i) with
    | mk s1 res =>
      rw [hres] at hv
      simp only at hv
      subst hv
      simp only
      have hcs' : ∀ j, j < r.length → subs[i + 1 + j]? = r[j]? := by
        intro j hj
        have := hcs (j + 1) (by simp; omega)
        simpa [Nat.add_assoc, Nat.add_comm 1 j] using this
      have hlen' : i + 1 + r.length = subs.length := by simp at hlen; omega
      rw [ih (i + 1) _ (pending - 1) hcs' hlen' ?_]
      · simp; omega
      · intro j c' hj hjc
        obtain ⟨sl, hsl, hr, hf⟩ := hall j c' (by omega) hjc
        refine ⟨sl, ?_, hr, hf⟩
        have hcc : c' ≠ c := by
          intro h
          have := nodup_getElem?_inj hn hjc (h ▸ hci)
          omega
        have := subPoll_other_slot s c c' (.task i) hcc
        rw [hres] at this
        simp only at this ⊢
        rw [this]; exact hsl

theorem modSlot_requests_ready (s : St) (c : Nat) (r : Nat) (c' : Nat) (h : SlotReady s c') :
    SlotReady (modSlot s c (fun sl => { sl with requests := sl.requests ++ [r] })) c' := by
  obtain ⟨sl, hsl, hr, hf⟩ := h
  unfold modSlot
  cases hc : s.slots[c]? with
  | none => exact ⟨sl, hsl, hr, hf⟩
  | some sl0 =>
    simp only
    have hlt : c < s.slots.length := by
      rcases Nat.lt_or_ge c s.slots.length with h | h
      · exact h
      · rw [List.getElem?_eq_none h] at hc; simp at hc
    by_cases hcc : c' = c
    · subst hcc
      rw [hsl] at hc; simp at hc; subst hc
      exact ⟨{ sl with requests := sl.requests ++ [r] }, by simp only; rw [List.getElem?_set_self hlt], hr, hf⟩
    · exact ⟨sl, by simp only; rw [List.getElem?_set_ne (Ne.symm hcc)]; exact hsl, hr, hf⟩

theorem slotReady_congr {s s' : St} (h : s'.slots = s.slots) {c : Nat} (hr : SlotReady s c) : SlotReady s' c := by
  obtain ⟨sl, hsl, a, b⟩ := hr
  exact ⟨sl, by rw [h]; exact hsl, a, b⟩

theorem recordRequests_ready (arg : Nat) : ∀ (l : List Nat) (s : St) (c' : Nat), SlotReady s c' →
    SlotReady (recordRequests s arg l) c' := by
  intro l
  induction l with
  | nil => intro s c' h; exact h
  | cons c r ih =>
    intro s c' h
    simp only [recordRequests]
    cases hsd : s.senders[c]? with
    | none => simp only; exact ih s c' h
    | some sd => simp only; exact ih _ c' (modSlot_requests_ready s c _ c' h)

theorem pollDirect_ready (s : St) (c consume : Nat) (h : SlotReady s c) : ∃ vals, (pollDirect s c consume).2 = .ready vals := by
  obtain ⟨v, hv⟩ := subPoll_ready_of s c .outer h
  unfold pollDirect
  cases hres : subPoll s c .outer with
  | mk s1 res =>
    rw [hres] at hv
    simp only at hv
    subst hv
    simp only [finish]
    exact ⟨_, rfl⟩

/-- **a broadcast all of whose accepting repliers have their reply ready completes at its first poll** -/
theorem first_poll_completes_when_all_ready (s : St) (arg consume : Nat)
    (hf : s.fut = some (.lazy arg consume)) (hall : ∀ c ∈ accepted s.senders arg, SlotReady s c) :
    ∃ vals, (poll s).2 = .ready vals := by
  unfold poll
  rw [hf]
  simp only
  unfold startBc
  simp only
  split
  · exact ⟨_, rfl⟩
  · rename_i sd hone
    by_cases hacc : sd.accepts arg = true
    · rw [if_pos hacc]
      apply pollDirect_ready
      apply recordRequests_ready
      apply slotReady_congr rfl
      apply hall
      show 0 ∈ accepted s.senders arg
      rw [hone]; unfold accepted; simp [List.range_succ, hacc]
    · rw [if_neg hacc]; exact ⟨_, rfl⟩
  · split
    · exact ⟨_, rfl⟩
    · rename_i c1 hacc1
      apply pollDirect_ready
      apply recordRequests_ready
      apply slotReady_congr rfl
      apply hall
      show c1 ∈ accepted s.senders arg
      rw [hacc1]; simp
    · -- a `BroadcastFuture`: the first pass consumes every reply
      unfold pollMulti
      simp only [if_true]
      have hn := accepted_nodup s.senders arg
      have key : ∀ s0 : St, (∀ c ∈ accepted s.senders arg, SlotReady s0 c) →
          ∃ vals, (afterPass (accepted s.senders arg) consume
            (firstPass 0 (accepted s.senders arg) s0 (accepted s.senders arg).length)).2 = .ready vals := by
        intro s0 h0
        have := firstPass_fills (accepted s.senders arg) hn (accepted s.senders arg) 0 s0 (accepted s.senders arg).length
          (by intro j hj; simp) (by simp) (by
            intro j c _ hjc
            exact h0 c (List.mem_of_getElem? hjc))
        cases hres : firstPass 0 (accepted s.senders arg) s0 (accepted s.senders arg).length with
        | mk s1 r =>
          rw [hres] at this
          simp only at this
          rw [this]
          simp only [afterPass, Nat.sub_self, if_true, finish]
          exact ⟨_, rfl⟩
      unfold discard
      split
      · exact key _ (by intro c hc; exact slotReady_congr rfl (recordRequests_ready arg _ _ c (slotReady_congr rfl (hall c hc))))
      · exact key _ (by intro c hc; exact slotReady_congr rfl (recordRequests_ready arg _ _ c (slotReady_congr rfl (hall c hc))))

end NexoVerif.Bcast
