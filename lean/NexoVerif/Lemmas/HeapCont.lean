import NexoVerif.Lemmas.HeapOps
import NexoVerif.Model.PQ
/-! M-HEAP: what a slab node stands for (its key and epoch are in the heap array), and that the two loops change that
for no node but the one of the item they place. -/
namespace NexoVerif.Heap
open NexoVerif.PQ (Item Node IPQ)

/-- the entry a slab node stands for: its value, and the key and epoch found at its heap index -/
def cont (h : Array HItem) (s : Array SNode) (j : Nat) : Node :=
  match rd s j with
  | .free nx => .free nx
  | .used v hi => .used { key := (rd h hi).key, epoch := (rd h hi).epoch, val := v }

/-- the entry the node of the item kept aside will stand for once the item is placed -/
def ownNode (s : Array SNode) (item : HItem) : Node :=
  match rd s item.slab with
  | .free nx => .free nx
  | .used v _ => .used { key := item.key, epoch := item.epoch, val := v }

theorem place_cont {h s hole} {item : HItem} (x : Cross h s hole item.slab) (j : Nat) (hj : j < s.size) :
    cont (place h s item hole).1 (place h s item hole).2 j = if j = item.slab then ownNode s item else cont h s j := by
  obtain ⟨hown, v0, hi0, hv0⟩ := x.ownUsed
  have hh := x.holeIn
  simp only [place]
  by_cases e : j = item.slab
  · subst e
    simp only [if_true, cont, ownNode, rd_setH_same _ _ _ _ _ hown hv0, hv0, rd_wr_same _ _ _ hh]
  · simp only [e, if_false, cont, rd_setH_other _ _ _ _ (Ne.symm e)]
    cases hu : rd s j with
    | free nx => rfl
    | used v hi =>
      obtain ⟨_, b, _⟩ := x.bwd j v hi hj hu e
      simp only [rd_wr_other _ _ _ _ (Ne.symm b)]

theorem move_cont {h s i own} (x : Cross h s i own) {p : Nat} (hp : p < h.size) (hpi : p ≠ i) (j : Nat)
    (hj : j < s.size) (jo : j ≠ own) :
    cont (wr h i (rd h p)) (setH s (rd h p).slab i) j = cont h s j := by
  have hh := x.holeIn
  obtain ⟨pa, pb, pv, pc⟩ := x.fwd p hp hpi
  by_cases e : j = (rd h p).slab
  · subst e
    simp only [cont, rd_setH_same _ _ _ _ _ pa pc, pc, rd_wr_same _ _ _ hh]
  · simp only [cont, rd_setH_other _ _ _ _ (Ne.symm e)]
    cases hu : rd s j with
    | free nx => rfl
    | used v hi =>
      obtain ⟨_, b, _⟩ := x.bwd j v hi hj hu jo
      simp only [rd_wr_other _ _ _ _ (Ne.symm b)]

theorem move_ownNode {h s i} {item : HItem} (x : Cross h s i item.slab) {p : Nat} (hp : p < h.size) (hpi : p ≠ i) :
    ownNode (setH s (rd h p).slab i) item = ownNode s item := by
  obtain ⟨_, pb, _, _⟩ := x.fwd p hp hpi
  simp only [ownNode, rd_setH_other _ _ _ _ pb]

theorem siftUp_cont (h s) (item : HItem) (i) (x : Cross h s i item.slab) (j : Nat) (hj : j < s.size) :
    cont (siftUp h s item i).1 (siftUp h s item i).2 j = if j = item.slab then ownNode s item else cont h s j := by
  fun_induction siftUp h s item i with
  | case1 h s => exact place_cont x j hj
  | case2 h s i h0 p hlt => exact place_cont x j hj
  | case3 h s i h0 p hlt h' s' hlt2 =>
    rw [show rd h' p = rd h p from rd_wr_other _ _ _ _ (by omega)] at hlt2
    exact absurd hlt2 hlt
  | case4 h s i h0 p hlt h' s' hlt2 ih =>
    have hp : p < h.size := by have := x.holeIn; omega
    have hpi : p ≠ i := by omega
    rw [ih (x.moved hp hpi) (by simpa [s'] using hj)]
    by_cases e : j = item.slab
    · simp only [e, if_true]; exact move_ownNode x hp hpi
    · simp only [e, if_false]; exact move_cont x hp hpi j hj e

theorem siftDown_cont (h s) (item : HItem) (p) (x : Cross h s p item.slab) (j : Nat) (hj : j < s.size) :
    cont (siftDown h s item p).1 (siftDown h s item p).2 j = if j = item.slab then ownNode s item else cont h s j := by
  fun_induction siftDown h s item p with
  | case1 h s p hc c hlt => exact place_cont x j hj
  | case2 h s p hc c hlt ih =>
    have hcs : c < h.size ∧ c ≠ p := by
      rcases pickChild_cases h (2 * p + 1) with e | ⟨e, e2⟩ <;> (simp only [c]; omega)
    rw [ih (x.moved hcs.1 hcs.2) (by simpa using hj)]
    by_cases e : j = item.slab
    · simp only [e, if_true]; exact move_ownNode x hcs.1 hcs.2
    · simp only [e, if_false]; exact move_cont x hcs.1 hcs.2 j hj e
  | case3 h s p hc => exact place_cont x j hj

end NexoVerif.Heap
