/-!
M-BCAST: the query broadcaster (`ports/output/broadcaster.rs`: `QueryBroadcaster::broadcast`, `BroadcastFuture`),
the task set it uses to track which sub-futures were woken (`util/task_set.rs`, at operation granularity) and the
cached read-write lock that makes port clones share one connection list (`util/cached_rw_lock.rs`).

The outside world — the repliers — is scripted: a reply can be made available for a connection at any moment, its
sub-future's stored waker can be invoked at any moment (with or without a reply: spurious wake-ups), the broadcast
future can be polled at any moment and dropped at any moment.
-/
namespace NexoVerif.Bcast

structure Sender where
  add : Nat
  fmod : Nat
  fres : Nat
deriving Repr, Inhabited

def Sender.accepts (c : Sender) (arg : Nat) : Bool := c.fmod == 0 || arg % c.fmod == c.fres

/-- the waker a sub-future stored when it returned `Pending` -/
inductive WK
  | task (i : Nat)     -- the task-set waker of sub-future index i
  | outer              -- the caller's waker (single-recipient fast path: no `BroadcastFuture`)
deriving Repr, DecidableEq, Inhabited

structure Slot where
  reply : Option Nat := none
  fail : Bool := false
  waker : Option WK := none
  polls : Nat := 0
  requests : List Nat := []
deriving Repr, Inhabited

inductive Fut
  | lazy (arg consume : Nat)                         -- created, not yet polled
  | direct (conn consume : Nat)                       -- awaiting the only send future directly
  | multi (subs : List Nat) (pending : Nat) (uninit : Bool) (consume : Nat)   -- a `BroadcastFuture`
deriving Repr, Inhabited

structure St where
  senders : List Sender := []
  slots : List Slot := []
  outputs : List (Option Nat) := []     -- `Shared::outputs`
  stack : List Nat := []                -- scheduled task indices, most recently woken first
  countdown : Nat := 0
  taskLen : Nat := 0                    -- number of `Task`s ever created (the vector only grows)
  taskCount : Nat := 0
  registered : Bool := false            -- a waker is registered in the wake sink
  outerWakes : Nat := 0                 -- notifications delivered to the caller's waker
  fut : Option Fut := none
  -- ghost: (connection, value) of every reply consumed from a replier by the current future, in order of consumption
  got : List (Nat × Nat) := []
  bcArg : Nat := 0                      -- ghost: the argument of the current broadcast
  handed : List (Nat × Nat) := []       -- ghost: every (connection, reply) ever made available by a replier
deriving Repr, Inhabited

inductive PollRes
  | noFuture
  | pending
  | err
  | ready (vals : List (Option Nat))      -- `none` = the code would unwrap an empty slot (panic)
deriving Repr, DecidableEq, Inhabited

def setAt {α} (l : List α) (i : Nat) (v : α) : List α := l.set i v

def modSlot (s : St) (c : Nat) (f : Slot → Slot) : St :=
  match s.slots[c]? with
  | some sl => { s with slots := s.slots.set c (f sl) }
  | none => s

/-- `WakeSource::notify` -/
def notify (s : St) : St :=
  if s.registered then { s with registered := false, outerWakes := s.outerWakes + 1 } else s

/-- `Task::wake_by_ref` for task index `i` -/
def taskWake (s : St) (i : Nat) : St :=
  if i ∈ s.stack then s
  else
    let s1 := { s with stack := i :: s.stack, countdown := s.countdown - 1 }
    if s.countdown = 1 then notify s1 else s1

inductive SubRes | ready (v : Nat) | err | pending
deriving Repr, DecidableEq

/-- poll of the send future of connection `c` with waker `wk` -/
def subPoll (s : St) (c : Nat) (wk : WK) : St × SubRes :=
  match s.slots[c]? with
  | none => (s, .pending)
  | some sl =>
    let sl := { sl with polls := sl.polls + 1 }
    if sl.fail then ({ s with slots := s.slots.set c { sl with fail := false } }, .err)
    else match sl.reply with
      | some r => ({ s with slots := s.slots.set c { sl with reply := none }, got := s.got ++ [(c, r)] }, .ready r)
      | none => ({ s with slots := s.slots.set c { sl with waker := some wk } }, .pending)

/-- result of polling a list of scheduled sub-futures in turn: `none` = a `SendError` aborted the broadcast -/
def pollSubs (subs : List Nat) : List Nat → St → Nat → St × Option Nat
  | [], s, pending => (s, some pending)
  | i :: rest, s, pending =>
    if i < s.taskCount ∧ (s.outputs[i]?).join = none then
      match subs[i]? with
      | none => pollSubs subs rest s pending
      | some c =>
        match subPoll s c (.task i) with
        | (s', .ready v) => pollSubs subs rest { s' with outputs := s'.outputs.set i (some v) } (pending - 1)
        | (s', .err) => (s', none)
        | (s', .pending) => pollSubs subs rest s' pending
    else pollSubs subs rest s pending

/-- first pass of `BroadcastFuture::poll`: every sub-future once, in order -/
def firstPass : Nat → List Nat → St → Nat → St × Option Nat
  | _, [], s, pending => (s, some pending)
  | i, c :: r, s, pending =>
    match subPoll s c (.task i) with
    | (s', .ready v) => firstPass (i + 1) r { s' with outputs := s'.outputs.set i (some v) } (pending - 1)
    | (s', .err) => (s', none)
    | (s', .pending) => firstPass (i + 1) r s' pending

/-- the reply iterator: the first `k` slots, of which the caller consumes (and thereby empties) `consume` -/
def finish (s : St) (k consume : Nat) : St × PollRes :=
  let n := min k consume
  let vals := s.outputs.take n
  ({ s with outputs := (List.replicate n none) ++ s.outputs.drop n, fut := none }, .ready vals)

/-- the polling loop of `BroadcastFuture::poll` after the first pass -/
def loopPoll (subs : List Nat) (consume : Nat) : Nat → St → Nat → St × PollRes
  | 0, s, pending => ({ s with fut := some (.multi subs pending false consume) }, .pending)
  | fuel + 1, s, pending =>
    let s := if s.stack = [] then { s with registered := true } else s
    if s.stack = [] then
      ({ s with countdown := 1, fut := some (.multi subs pending false consume) }, .pending)
    else
      let l := s.stack
      match pollSubs subs l { s with stack := [], countdown := 0 } pending with
      | (s', none) => ({ s' with fut := none }, .err)
      | (s', some pending') =>
        if pending' = 0 then finish s' subs.length consume
        else loopPoll subs consume fuel s' pending'

def accepted (senders : List Sender) (arg : Nat) : List Nat :=
  (List.range senders.length).filter fun c => match senders[c]? with | some sd => sd.accepts arg | none => false

def recordRequests (s : St) (arg : Nat) : List Nat → St
  | [] => s
  | c :: r =>
    let s' := match s.senders[c]? with
      | some sd => modSlot s c (fun sl => { sl with requests := sl.requests ++ [arg + sd.add] })
      | none => s
    recordRequests s' arg r

def pollDirect (s : St) (c consume : Nat) : St × PollRes :=
  match subPoll s c .outer with
  | (s', .ready v) => finish { s' with outputs := s'.outputs.set 0 (some v) } 1 consume
  | (s', .err) => ({ s' with fut := none }, .err)
  | (s', .pending) => ({ s' with fut := some (.direct c consume) }, .pending)

/-- `TaskSet::discard_scheduled` -/
def discard (s : St) : St :=
  if s.stack ≠ [] ∨ s.countdown ≠ 0 then { s with stack := [], countdown := 0 } else s

/-- what `BroadcastFuture::poll` does with the outcome of its first pass -/
def afterPass (subs : List Nat) (consume : Nat) : St × Option Nat → St × PollRes
  | (s', none) => ({ s' with fut := none }, .err)
  | (s', some p) => if p = 0 then finish s' subs.length consume else loopPoll subs consume 2 s' p

def pollMulti (s : St) (subs : List Nat) (pending : Nat) (uninit : Bool) (consume : Nat) : St × PollRes :=
  if uninit then afterPass subs consume (firstPass 0 subs (discard s) pending)
  else loopPoll subs consume 2 s pending

/-- first poll of `QueryBroadcaster::broadcast(arg)`: the senders are asked for their send futures -/
def startBc (s : St) (arg consume : Nat) : St × PollRes :=
  match s.senders with
  | [] => finish s 0 consume
  | [sd] =>
    if sd.accepts arg then pollDirect (recordRequests s arg [0]) 0 consume
    else finish s 0 consume
  | _ =>
    let acc := accepted s.senders arg
    let s := recordRequests s arg acc
    match acc with
    | [] => finish s 0 consume
    | [c] => pollDirect s c consume
    | _ =>
      let k := acc.length
      let s := { s with taskCount := k, taskLen := max s.taskLen k,
                        outputs := (List.replicate (min k s.outputs.length) none) ++ s.outputs.drop k }
      pollMulti s acc k true consume

def poll (s : St) : St × PollRes :=
  match s.fut with
  | none => (s, .noFuture)
  | some (.lazy arg consume) => startBc { s with got := [] } arg consume
  | some (.direct c consume) => pollDirect s c consume
  | some (.multi subs pending uninit consume) => pollMulti s subs pending uninit consume

inductive Op
  | add (a fmod fres : Nat)
  | bc (arg consume : Nat)
  | poll
  | drop
  | reply (c v : Nat)        -- make a reply available (no wake-up)
  | wake (c : Nat)           -- invoke the waker stored by connection c's last pending sub-future
  | failNext (c : Nat)
deriving Repr, Inhabited

def wake (s : St) (c : Nat) : St :=
  match s.slots[c]? with
  | some sl => match sl.waker with
    | some (.task i) => if i < s.taskLen then taskWake s i else s
    | some .outer => { s with outerWakes := s.outerWakes + 1 }
    | none => s
  | none => s

def step (s : St) : Op → St × Option PollRes
  | .add a fm fr =>
    if s.fut.isSome then (s, none)
    else ({ s with senders := s.senders ++ [⟨a, fm, fr⟩], slots := s.slots ++ [{}], outputs := s.outputs ++ [none] }, none)
  | .bc arg consume => if s.fut.isSome then (s, none) else ({ s with fut := some (.lazy arg consume), bcArg := arg }, none)
  | .poll => let r := poll s; (r.1, some r.2)
  | .drop => ({ s with fut := none }, none)
  | .reply c v => ({ modSlot s c (fun sl => { sl with reply := some v }) with handed := s.handed ++ [(c, v)] }, none)
  | .wake c => (wake s c, none)
  | .failNext c => (modSlot s c (fun sl => { sl with fail := true }), none)

/-! ### the cached read-write lock -/

structure Lock where
  shared : List Nat := []
  sepoch : Nat := 0
  clones : List (List Nat × Nat) := [([], 0)]      -- (cached value, cached epoch) per clone
deriving Repr, Inhabited

inductive LOp
  | clone (c : Nat)
  | writePush (c v : Nat)
  | read (c : Nat)
deriving Repr, Inhabited

def lstep (l : Lock) : LOp → Lock × Option (List Nat)
  | .clone c => match l.clones[c]? with
    | some cl => ({ l with clones := l.clones ++ [cl] }, none)
    | none => (l, none)
  | .writePush c v => if c < l.clones.length then ({ l with shared := l.shared ++ [v], sepoch := l.sepoch + 1 }, none) else (l, none)
  | .read c => match l.clones[c]? with
    | some (v, e) =>
      if e ≠ l.sepoch then ({ l with clones := l.clones.set c (l.shared, l.sepoch) }, some l.shared)
      else (l, some v)
    | none => (l, none)

end NexoVerif.Bcast
