/-!
M-TSET: `util/task_set.rs` — the set of sub-task wakers of a broadcast: a Treiber stack of scheduled sub-tasks threaded
through the tasks' `next` words, with a countdown in the upper half of the head word.  Any number of concurrent
`wake_by_ref` calls (several per task), one owner (`take_scheduled`, the iterator), at the granularity of the atomic
operations, sequentially consistent.  `stack` and `iter` are ghost lists: the chain hanging off the head and the chain
the iterator still has to walk; the code only follows `next` words, and the invariant shows that this is the same.
`discard_scheduled` is `take_scheduled(0)` followed by the iterator's drop, which walks the chain and puts every element
back to SLEEPING without yielding it (`dropNext`; its load and store are taken as one step: the only operation that can
fall between them is the no-op CAS of a concurrent wake, whose effect is then discarded exactly as if it had come just
before).
-/
namespace NexoVerif.TSet

inductive Nx
  | sleeping
  | empty
  | idx (k : Nat)
deriving Repr, DecidableEq, Inhabited

def ofIx : Option Nat → Nx
  | none => .empty
  | some k => .idx k

structure Hd where
  cd : Nat := 0              -- countdown (upper 32 bits)
  ix : Option Nat := none    -- index of the last scheduled task (`none`: EMPTY)
deriving Repr, DecidableEq, Inhabited

inductive WPc
  | idle
  | loadNext                 -- about to load `next`
  | look (nx : Nx)           -- holds the value of `next` it saw: about to load the head (if sleeping) or to try the no-op CAS
  | claim (h : Hd)           -- loaded the head: about to CAS `next`: SLEEPING → index in `h`
  | push (h : Hd)            -- claimed: about to CAS the head: `h` → (countdown − 1, this task)
  | fixNext (h : Hd)         -- that CAS failed and returned `h`: about to swap `next` := index in `h`
  | notify                   -- took the countdown from 1 to 0: about to notify the parent task
deriving Repr, DecidableEq, Inhabited

structure St where
  n : Nat                                 -- tasks 0 .. n-1
  m : Nat                                 -- waker threads 0 .. m-1
  next : Nat → Nx := fun _ => .sleeping
  head : Hd := {}
  wpc : Nat → WPc := fun _ => .idle
  wt : Nat → Nat := fun _ => 0            -- the task a waker thread is waking
  cur : Option Nat := none                -- the iterator's `next_index` (`none`: EMPTY)
  err : Bool := false                     -- the iterator read SLEEPING (it would index out of bounds)
  -- ghost
  stack : List Nat := []                  -- chain hanging off the head, top first
  iter : List Nat := []                   -- chain the iterator still has to walk
  need : Nat → Bool := fun _ => false     -- a wake-up of the task has taken effect and the task was not yielded since
  yielded : List Nat := []                -- indices yielded by the iterator, in order
  notified : Nat := 0                     -- notifications sent to the parent task
  armed : Nat := 0                        -- the countdown requested by the last `take_scheduled` that found nothing
  pushes : Nat := 0                       -- pushes since then
  fired : Bool := false                   -- one of them took the countdown from 1 to 0 (it then notifies the parent)

def upd {α} (f : Nat → α) (i : Nat) (v : α) : Nat → α := fun j => if j = i then v else f j
@[simp] theorem upd_same {α} (f : Nat → α) (i : Nat) (v : α) : upd f i v i = v := by simp [upd]
@[simp] theorem upd_other {α} (f : Nat → α) {i j : Nat} (v : α) (h : j ≠ i) : upd f i v j = f j := by simp [upd, h]

inductive Label
  | wBegin (w i : Nat)
  | wLoadNext (w : Nat)
  | wLook (w : Nat)
  | wClaim (w : Nat)
  | wPush (w : Nat)
  | wFixNext (w : Nat)
  | wNotify (w : Nat)
  | take (c : Nat)
  | iterNext
  | dropNext             -- the iterator's drop handling one element: `next` := SLEEPING, nothing yielded
deriving Repr

def step (l : Label) (s : St) : Option St :=
  match l with
  | .wBegin w i =>
    if w < s.m ∧ i < s.n ∧ s.wpc w = .idle then some { s with wpc := upd s.wpc w .loadNext, wt := upd s.wt w i } else none
  | .wLoadNext w =>
    if w < s.m ∧ s.wpc w = .loadNext then some { s with wpc := upd s.wpc w (.look (s.next (s.wt w))) } else none
  | .wLook w =>
    if w < s.m then
      match s.wpc w with
      | .look .sleeping => some { s with wpc := upd s.wpc w (.claim s.head) }
      | .look nx =>
        -- no-op CAS `nx → nx`: confirms that the task is scheduled (a failure hands back the current value)
        if s.next (s.wt w) = nx then some { s with wpc := upd s.wpc w .idle, need := upd s.need (s.wt w) true }
        else some { s with wpc := upd s.wpc w (.look (s.next (s.wt w))) }
      | _ => none
    else none
  | .wClaim w =>
    if w < s.m then
      match s.wpc w with
      | .claim h =>
        if s.next (s.wt w) = .sleeping then
          some { s with next := upd s.next (s.wt w) (ofIx h.ix), wpc := upd s.wpc w (.push h),
                        need := upd s.need (s.wt w) true }
        else some { s with wpc := upd s.wpc w (.look (s.next (s.wt w))) }
      | _ => none
    else none
  | .wPush w =>
    if w < s.m then
      match s.wpc w with
      | .push h =>
        if s.head = h then
          some { s with head := { cd := h.cd - 1, ix := some (s.wt w) }, stack := s.wt w :: s.stack,
                        pushes := s.pushes + 1, fired := s.fired || (h.cd == 1),
                        wpc := upd s.wpc w (if h.cd = 1 then .notify else .idle) }
        else some { s with wpc := upd s.wpc w (.fixNext s.head) }
      | _ => none
    else none
  | .wFixNext w =>
    if w < s.m then
      match s.wpc w with
      | .fixNext h => some { s with next := upd s.next (s.wt w) (ofIx h.ix), wpc := upd s.wpc w (.push h) }
      | _ => none
    else none
  | .wNotify w =>
    if w < s.m ∧ s.wpc w = .notify then some { s with notified := s.notified + 1, wpc := upd s.wpc w .idle } else none
  | .take c =>
    if s.cur = none then
      match s.head.ix with
      | none => some { s with head := { cd := c, ix := none }, armed := c, pushes := 0, fired := false }
      | some k => some { s with head := { cd := 0, ix := none }, cur := some k, iter := s.stack, stack := [],
                                armed := 0, pushes := 0, fired := false }
    else none
  | .iterNext =>
    match s.cur with
    | some j =>
      match s.next j with
      | .sleeping => some { s with err := true, cur := none }
      | .empty => some { s with next := upd s.next j .sleeping, cur := none, iter := s.iter.tail,
                                need := upd s.need j false, yielded := s.yielded ++ [j] }
      | .idx k => some { s with next := upd s.next j .sleeping, cur := some k, iter := s.iter.tail,
                                need := upd s.need j false, yielded := s.yielded ++ [j] }
    | none => none
  | .dropNext =>
    match s.cur with
    | some j =>
      match s.next j with
      | .sleeping => some { s with err := true, cur := none }
      | .empty => some { s with next := upd s.next j .sleeping, cur := none, iter := s.iter.tail,
                                need := upd s.need j false }
      | .idx k => some { s with next := upd s.next j .sleeping, cur := some k, iter := s.iter.tail,
                                need := upd s.need j false }
    | none => none

def St.init (n m : Nat) : St := { n := n, m := m }

inductive Reach (n m : Nat) : St → Prop
  | init : Reach n m (St.init n m)
  | step {s s' : St} (l : Label) : Reach n m s → step l s = some s' → Reach n m s'

end NexoVerif.TSet
