/-!
M-QUEUE-C: the mailbox queue (`channel/queue.rs`) under concurrency, at the granularity of its atomic operations
(sequentially consistent), for any number of producers and one consumer.  Positions are logical (0, 1, 2, …; the
slot of position p is p % cap); a slot's stamp is `2p` when the slot is free for position p and `2p + 1` when it
holds the message of position p.  (The arithmetic encoding of positions and stamps in machine words is the subject of
M-QUEUE: `enc`, `next_pos_is_successor`.)
-/
namespace NexoVerif.CQ

/-- program counter of a producer inside `push(v)` -/
inductive PPc
  | idle
  | gotPos (v p : Nat)             -- `enqueue_pos` loaded: position p (closed flag clear)
  | gotStamp (v p st : Nat)        -- the slot's stamp loaded
  | claimed (v p : Nat)            -- the CAS on `enqueue_pos` succeeded
  | wrote (v p : Nat)              -- the message is in the slot, the stamp not yet stored
deriving Repr, DecidableEq, Inhabited

inductive CPc
  | idle
  | borrowed (p : Nat)             -- a `MessageBorrow` for position p is outstanding
deriving Repr, DecidableEq, Inhabited

inductive Res | ok | full | closed
deriving Repr, DecidableEq, Inhabited

structure St where
  cap : Nat
  e : Nat := 0                      -- enqueue position
  closed : Bool := false            -- closed flag (a bit of the same word as `e`)
  d : Nat := 0                      -- dequeue position
  stamp : Nat → Nat := fun i => 2 * i
  val : Nat → Nat := fun _ => 0
  prod : Nat → PPc := fun _ => .idle
  cons : CPc := .idle
  -- ghost
  claims : List (Nat × Nat) := []   -- (producer, value) of position 0, 1, 2, …
  popped : List Nat := []           -- values returned by `pop`, in order
  results : List (Nat × Nat × Res) := []   -- (producer, value, result) of every completed `push`
  popClosed : Bool := false         -- `pop` has reported `Closed`

def upd {α} (f : Nat → α) (i : Nat) (v : α) : Nat → α := fun j => if j = i then v else f j
@[simp] theorem upd_same {α} (f : Nat → α) (i : Nat) (v : α) : upd f i v i = v := by simp [upd]
@[simp] theorem upd_other {α} (f : Nat → α) {i j : Nat} (v : α) (h : j ≠ i) : upd f i v j = f j := by simp [upd, h]

inductive Label
  | pBegin (i v : Nat)       -- producer i starts push(v): loads `enqueue_pos`
  | pLoadStamp (i : Nat)
  | pDecide (i : Nat)        -- compare the stamp with the position: CAS / Full / reload
  | pWrite (i : Nat)
  | pPublish (i : Nat)       -- store stamp + 1
  | cPop
  | cRelease
  | close
deriving Repr, DecidableEq

/-- (re)load of `enqueue_pos` by producer i pushing v: either the closed flag is seen or a position is obtained -/
def loadPos (s : St) (i v : Nat) : St :=
  if s.closed then { s with prod := upd s.prod i .idle, results := s.results ++ [(i, v, .closed)] }
  else { s with prod := upd s.prod i (.gotPos v s.e) }

def step (l : Label) (s : St) : Option St :=
  match l with
  | .pBegin i v => if s.prod i = .idle then some (loadPos s i v) else none
  | .pLoadStamp i =>
    match s.prod i with
    | .gotPos v p => some { s with prod := upd s.prod i (.gotStamp v p (s.stamp (p % s.cap))) }
    | _ => none
  | .pDecide i =>
    match s.prod i with
    | .gotStamp v p st =>
      if st = 2 * p then
        -- compare_exchange(enqueue_pos: p → next)
        if s.e = p ∧ s.closed = false then
          some { s with e := p + 1, prod := upd s.prod i (.claimed v p), claims := s.claims ++ [(i, v)] }
        else some (loadPos s i v)       -- the CAS returns the current word: closed → Err(Closed), else retry with it
      else if st < 2 * p then
        some { s with prod := upd s.prod i .idle, results := s.results ++ [(i, v, .full)] }
      else some (loadPos s i v)
    | _ => none
  | .pWrite i =>
    match s.prod i with
    | .claimed v p => some { s with val := upd s.val (p % s.cap) v, prod := upd s.prod i (.wrote v p) }
    | _ => none
  | .pPublish i =>
    match s.prod i with
    | .wrote v p =>
      some { s with stamp := upd s.stamp (p % s.cap) (2 * p + 1), prod := upd s.prod i .idle,
                    results := s.results ++ [(i, v, .ok)] }
    | _ => none
  | .cPop =>
    match s.cons with
    | .idle =>
      if s.stamp (s.d % s.cap) ≠ 2 * s.d then
        some { s with d := s.d + 1, cons := .borrowed s.d, popped := s.popped ++ [s.val (s.d % s.cap)] }
      else if s.closed ∧ s.e = s.d then some { s with popClosed := true }
      else some s     -- Empty
    | _ => none
  | .cRelease =>
    match s.cons with
    | .borrowed p => some { s with stamp := upd s.stamp (p % s.cap) (2 * (p + s.cap)), cons := .idle }
    | _ => none
  | .close => some { s with closed := true }

inductive Reach (cap : Nat) : St → Prop
  | init : Reach cap { cap := cap }
  | step {s s' : St} (l : Label) : Reach cap s → step l s = some s' → Reach cap s'

/-- positions whose slot has been released by the consumer -/
def St.dRel (s : St) : Nat := match s.cons with | .idle => s.d | .borrowed _ => s.d - 1

end NexoVerif.CQ
