import NexoVerif.Model.SeqLock
import NexoVerif.Extracted
/-!
Executable glue for M-SEQLOCK: the orderings read off `Extracted.lean`, sequentially consistent runs of the
machine (used by the correspondence check), and a bounded search for a torn read (used only to *find a
failing history* when the proof obligations no longer check — never as the proof).
-/
namespace NexoVerif.SeqLock
open NexoVerif

/-- Read the seven orderings off the extracted operation lists; `none` if the shape of `write` / `try_read`
/ the tearable accessors is not the one the model's programs have. -/
def ordsOf (w r ts tl : List AOp) : Option Ords :=
  match w, r, ts, tl with
  | [.load "sequence" o1, .store "sequence" o2, .fence o3, .call "tearable_store", .store "sequence" o4],
    [.load "sequence" o5, .call "guard_odd", .call "tearable_load", .fence o6, .load "sequence" o7, .call "guard_same"],
    [.store "secs" _, .store "nanos" _],
    [.load "secs" _, .load "nanos" _] =>
    some { wLoad := o1, wOdd := o2, wFence := o3, wEven := o4, rFirst := o5, rFence := o6, rSecond := o7 }
  | _, _, _, _ => none

def extractedOrds? : Option Ords :=
  ordsOf Extracted.syncCellWrite Extracted.syncCellTryRead Extracted.tearableStore Extracted.tearableLoad

/-- all-relaxed fallback, only so that the driver stays total when the shape is not recognised -/
def relaxedOrds : Ords := ⟨.relaxed, .relaxed, .relaxed, .relaxed, .relaxed, .relaxed, .relaxed⟩

def extractedOrds : Ords := extractedOrds?.getD relaxedOrds

/-- Which of the two guards of `try_read` are present in the source (both are part of the model's reader
program; their absence makes `extractedOrds?` fail and is explored only by the failing-history search). -/
def extractedGuards : Bool × Bool :=
  (Extracted.syncCellTryRead.contains (.call "guard_odd"), Extracted.syncCellTryRead.contains (.call "guard_same"))

/-- orderings for the search even when the guards are missing -/
def searchOrds : Ords :=
  match Extracted.syncCellWrite, Extracted.syncCellTryRead.filter (fun a => match a with | .call "guard_odd" => false | .call "guard_same" => false | _ => true) with
  | [.load "sequence" o1, .store "sequence" o2, .fence o3, .call "tearable_store", .store "sequence" o4],
    [.load "sequence" o5, .call "tearable_load", .fence o6, .load "sequence" o7] =>
    { wLoad := o1, wOdd := o2, wFence := o3, wEven := o4, rFirst := o5, rFence := o6, rSecond := o7 }
  | _, _ => relaxedOrds

/-- variant of `step` used only by the failing-history search: the reader without its early return on an odd
sequence (`oddGuard = false`) or without the final equality test (`sameGuard = false`) -/
def stepV (oddGuard sameGuard : Bool) (o : Ords) (l : Label) (s : St) : Option St :=
  match l with
  | .rLoadSeq1 i =>
    if oddGuard then step o l s else
    if s.rpc = .start ∧ s.rcur.seq ≤ i then
      match s.seqM[i]? with
      | some m =>
        let cur := { s.rcur with seq := i }
        some { s with rv := m.val, racq := s.racq.join m.view,
                      rcur := if o.rFirst.isAcq then cur.join m.view else cur, rpc := .seqLoaded }
      | none => none
    else none
  | .rLoadSeq2 i =>
    if sameGuard then step o l s else
    if s.rpc = .fenced ∧ s.rcur.seq ≤ i then
      match s.seqM[i]? with
      | some m =>
        some { s with racq := s.racq.join m.view, rcur := { s.rcur with seq := i }, rpc := .done,
                      result := some (some (s.ra, s.rb)), lastOk := s.ja }
      | none => none
    else none
  | _ => step o l s

/-- variant of `step` used only by the failing-history search: the reader with the two tests of `try_read` as they are
in the source (translated by the extractor) — `early seq`: give up after the first load; `accept seq newSeq`: return the
value read -/
def stepT (early : Nat → Bool) (accept : Nat → Nat → Bool) (o : Ords) (l : Label) (s : St) : Option St :=
  match l with
  | .rLoadSeq1 i =>
    if s.rpc = .start ∧ s.rcur.seq ≤ i then
      match s.seqM[i]? with
      | some m =>
        let cur := { s.rcur with seq := i }
        let s' := { s with rv := m.val, racq := s.racq.join m.view,
                           rcur := if o.rFirst.isAcq then cur.join m.view else cur }
        if early m.val then some { s' with rpc := .done, result := some none }
        else some { s' with rpc := .seqLoaded }
      | none => none
    else none
  | .rLoadSeq2 i =>
    if s.rpc = .fenced ∧ s.rcur.seq ≤ i then
      match s.seqM[i]? with
      | some m =>
        let s' := { s with racq := s.racq.join m.view, rcur := { s.rcur with seq := i }, rpc := .done }
        if accept s.rv m.val then some { s' with result := some (some (s.ra, s.rb)), lastOk := s.ja }
        else some { s' with result := some none }
      | none => none
    else none
  | _ => step o l s

def runLabels (o : Ords) (ls : List Label) (s : St) : Option St :=
  ls.foldl (fun acc l => acc.bind (step o l)) (some s)

/-- a complete `write(a, b)` -/
def doWrite (o : Ords) (a b : Nat) (s : St) : Option St :=
  runLabels o [.wBegin a b, .wStep, .wStep, .wStep, .wStep, .wStep] s

/-- a `try_read` that reads the latest message of every location (sequentially consistent reader) -/
def doReadSC (o : Ords) (s : St) : Option St :=
  runLabels o [.rLoadSeq1 (s.seqM.length - 1), .rLoadD1 (s.d1M.length - 1), .rLoadD2 (s.d2M.length - 1), .rFence,
               .rLoadSeq2 (s.seqM.length - 1), .rRestart] s

/-- labels enabled in `s` (the writer writes (k, k) for k = 1, 2, …) -/
def enabled (s : St) (maxWrites : Nat) : List Label :=
  let w := if s.wpc = .idle then (if s.d1M.length ≤ maxWrites then [Label.wBegin s.d1M.length s.d1M.length] else []) else [Label.wStep]
  let r := match s.rpc with
    | .start => (List.range s.seqM.length).map Label.rLoadSeq1
    | .seqLoaded => (List.range s.d1M.length).map Label.rLoadD1
    | .d1Loaded => (List.range s.d2M.length).map Label.rLoadD2
    | .d2Loaded => [Label.rFence]
    | .fenced => (List.range s.seqM.length).map Label.rLoadSeq2
    | .done => []
  r ++ w

def isTorn (s : St) : Bool :=
  match s.result with
  | some (some (x, y)) => x != y
  | _ => false

/-- depth-first search for an execution ending in a torn successful read -/
def searchTorn (g : Bool × Bool) (o : Ords) (maxWrites : Nat) : Nat → St → List Label → Option (List Label)
  | 0, _, _ => none
  | fuel + 1, s, trace =>
    if isTorn s then some trace.reverse else
    (enabled s maxWrites).firstM fun l =>
      match stepV g.1 g.2 o l s with
      | some s' => searchTorn g o maxWrites fuel s' (l :: trace)
      | none => none

/-- the same search with the tests of the source -/
def searchTornT (early : Nat → Bool) (accept : Nat → Nat → Bool) (o : Ords) (maxWrites : Nat) :
    Nat → St → List Label → Option (List Label)
  | 0, _, _ => none
  | fuel + 1, s, trace =>
    if isTorn s then some trace.reverse else
    (enabled s maxWrites).firstM fun l =>
      match stepT early accept o l s with
      | some s' => searchTornT early accept o maxWrites fuel s' (l :: trace)
      | none => none

end NexoVerif.SeqLock
