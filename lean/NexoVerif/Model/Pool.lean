/-!
M-POOL: idle detection of the multi-threaded executor (`executor/mt_executor.rs`: `Executor::run`,
`run_local_worker`, `schedule_task`; `mt_executor/pool_manager.rs`), at the granularity of its atomic steps,
sequentially consistent, any number of workers.  Tasks are anonymous: a queue is the number of tasks it holds; what a
task does when it runs (spawn other tasks, send and receive messages) is arbitrary.  Stealing, overflow to the injector
and the activation of a sibling are over-approximated (any running worker may do them at any moment), so the safety
theorems cover every behaviour of the real code.

`flushFirst` records whether a worker publishes its thread-local message count before it tries to become inactive
(the repaired code) or afterwards (the code as found); it is read from the source on every run.
-/
namespace NexoVerif.Pool

inductive WPc
  | flush        -- top of the loop
  | deact        -- about to `try_set_worker_inactive`
  | lateFlush    -- (only without `flushFirst`) inactive, count not yet published
  | parked
  | lastCheck    -- could not be deactivated (last active worker): about to test `injector.is_empty()`
  | lastClear    -- about to `set_all_workers_inactive`
  | lastFlush    -- (only without `flushFirst`) all inactive, count not yet published
  | lastUnpark   -- about to unpark the executor thread
  | search
  | runLoop      -- popping its own tasks
  | running      -- executing a task
deriving Repr, DecidableEq, Inhabited

inductive MPc
  | outside      -- not inside `run()`: may spawn tasks
  | check        -- inside `run()` (or `new()`), about to test `pool_is_idle()`
  | park         -- inside `run()` (or `new()`), about to park
deriving Repr, DecidableEq, Inhabited

structure St where
  n : Nat                               -- workers 0 .. n-1
  flushFirst : Bool
  active : Nat → Bool
  searching : Int := 0
  inj : Nat := 0                        -- tasks in the injector
  loc : Nat → Nat := fun _ => 0         -- tasks in the worker's local queue and fast slot
  wpc : Nat → WPc
  tok : Nat → Bool := fun _ => false    -- unpark token of the worker's parker
  tl : Nat → Int := fun _ => 0          -- thread-local message count
  g : Int := 0                          -- global message count
  mpc : MPc := .park
  mainTok : Bool := false               -- unpark token of the executor thread's parker
  result : Option Int := none           -- the count `run()` read when it saw the pool idle (last return)
  total : Int := 0                      -- ghost: sum of all the changes tasks made to their thread's count

def upd {α} (f : Nat → α) (i : Nat) (v : α) : Nat → α := fun j => if j = i then v else f j
@[simp] theorem upd_same {α} (f : Nat → α) (i : Nat) (v : α) : upd f i v i = v := by simp [upd]
@[simp] theorem upd_other {α} (f : Nat → α) {i j : Nat} (v : α) (h : j ≠ i) : upd f i v j = f j := by simp [upd, h]

/-- the executor in `Executor::new`: every worker marked active and about to go through the top of its loop, the
creating thread about to park until the pool is idle (it then asserts what `run()` tests) -/
def St.init (n : Nat) (flushFirst : Bool) : St :=
  { n := n, flushFirst := flushFirst, active := fun w => decide (w < n), wpc := fun _ => .flush, mpc := .park }

inductive Label
  | flush (w : Nat)
  | deact (w : Nat)
  | lateFlush (w : Nat)
  | lastCheck (w : Nat)
  | lastClear (w : Nat)
  | lastFlush (w : Nat)
  | lastUnpark (w : Nat)
  | wake (w : Nat)
  | takeInj (w k : Nat)
  | steal (w v k : Nat)
  | giveUp (w : Nat)
  | pop (w : Nat)
  | idleLoop (w : Nat)
  | push (w k : Nat)    -- the running task schedules `k` tasks (`schedule_task`: fast slot / local queue)
  | finishTask (w spawn : Nat) (delta : Int)
  | overflow (w k : Nat)
  | activate (w v : Nat)
  | mSpawn (k : Nat)
  | mRun (v : Nat)
  | mCheck          -- `pool_is_idle()` returned true: `run()` reads the count and returns
  | mCheckFail      -- it returned false
  | mPark           -- the executor thread's `park()` returns, consuming the token
deriving Repr

/-- no worker other than `w` is marked active -/
def onlyActive (s : St) (w : Nat) : Prop := ∀ v, v < s.n → v ≠ w → s.active v = false
instance (s : St) (w : Nat) : Decidable (onlyActive s w) := by unfold onlyActive; exact Nat.decidableBallLT _ _

def noneActive (s : St) : Prop := ∀ v, v < s.n → s.active v = false
instance (s : St) : Decidable (noneActive s) := by unfold noneActive; exact Nat.decidableBallLT _ _

def step (l : Label) (s : St) : Option St :=
  match l with
  | .flush w =>
    if w < s.n ∧ s.wpc w = .flush then
      if s.flushFirst then some { s with g := s.g + s.tl w, tl := upd s.tl w 0, wpc := upd s.wpc w .deact }
      else some { s with wpc := upd s.wpc w .deact }
    else none
  | .deact w =>
    if w < s.n ∧ s.wpc w = .deact then
      if onlyActive s w then some { s with wpc := upd s.wpc w .lastCheck }
      else some { s with active := upd s.active w false,
                         wpc := upd s.wpc w (if s.flushFirst then .parked else .lateFlush) }
    else none
  | .lateFlush w =>
    if w < s.n ∧ s.wpc w = .lateFlush then
      some { s with g := s.g + s.tl w, tl := upd s.tl w 0, wpc := upd s.wpc w .parked }
    else none
  | .lastCheck w =>
    if w < s.n ∧ s.wpc w = .lastCheck then
      if s.inj = 0 then some { s with wpc := upd s.wpc w .lastClear }
      else some { s with searching := s.searching + 1, wpc := upd s.wpc w .search }
    else none
  | .lastClear w =>
    if w < s.n ∧ s.wpc w = .lastClear then
      some { s with active := fun _ => false, wpc := upd s.wpc w (if s.flushFirst then .lastUnpark else .lastFlush) }
    else none
  | .lastFlush w =>
    if w < s.n ∧ s.wpc w = .lastFlush then
      some { s with g := s.g + s.tl w, tl := upd s.tl w 0, wpc := upd s.wpc w .lastUnpark }
    else none
  | .lastUnpark w =>
    if w < s.n ∧ s.wpc w = .lastUnpark then some { s with mainTok := true, wpc := upd s.wpc w .parked } else none
  | .wake w =>
    if w < s.n ∧ s.wpc w = .parked ∧ s.tok w = true then
      some { s with tok := upd s.tok w false, wpc := upd s.wpc w .search }
    else none
  | .takeInj w k =>
    if w < s.n ∧ s.wpc w = .search ∧ 0 < k ∧ k ≤ s.inj then
      some { s with inj := s.inj - k, loc := upd s.loc w (s.loc w + k), searching := s.searching - 1,
                    wpc := upd s.wpc w .runLoop }
    else none
  | .steal w v k =>
    if w < s.n ∧ v < s.n ∧ v ≠ w ∧ s.wpc w = .search ∧ s.active v = true ∧ 0 < k ∧ k ≤ s.loc v then
      some { s with loc := upd (upd s.loc v (s.loc v - k)) w (s.loc w + k), searching := s.searching - 1,
                    wpc := upd s.wpc w .runLoop }
    else none
  | .giveUp w =>
    if w < s.n ∧ s.wpc w = .search then
      some { s with searching := s.searching - 1, wpc := upd s.wpc w .flush }
    else none
  | .pop w =>
    if w < s.n ∧ s.wpc w = .runLoop ∧ 0 < s.loc w then
      some { s with loc := upd s.loc w (s.loc w - 1), wpc := upd s.wpc w .running }
    else none
  | .idleLoop w =>
    if w < s.n ∧ s.wpc w = .runLoop ∧ s.loc w = 0 then
      some { s with searching := s.searching + 1, wpc := upd s.wpc w .search }
    else none
  | .push w k =>
    if w < s.n ∧ s.wpc w = .running then some { s with loc := upd s.loc w (s.loc w + k) } else none
  | .finishTask w spawn delta =>
    if w < s.n ∧ s.wpc w = .running then
      some { s with loc := upd s.loc w (s.loc w + spawn), tl := upd s.tl w (s.tl w + delta),
                    total := s.total + delta, wpc := upd s.wpc w .runLoop }
    else none
  | .overflow w k =>
    if w < s.n ∧ s.wpc w = .running ∧ k ≤ s.loc w then
      some { s with loc := upd s.loc w (s.loc w - k), inj := s.inj + k }
    else none
  | .activate w v =>
    if w < s.n ∧ v < s.n ∧ s.wpc w = .running ∧ s.active v = false then
      some { s with active := upd s.active v true, searching := s.searching + 1, tok := upd s.tok v true }
    else none
  | .mSpawn k => if s.mpc = .outside then some { s with inj := s.inj + k } else none
  | .mRun v =>
    if s.mpc = .outside ∧ v < s.n ∧ s.active v = false then
      some { s with active := upd s.active v true, searching := s.searching + 1, tok := upd s.tok v true, mpc := .check }
    else none
  | .mCheck =>
    if s.mpc = .check ∧ noneActive s then some { s with result := some s.g, mpc := .outside } else none
  | .mCheckFail =>
    if s.mpc = .check ∧ ¬ noneActive s then some { s with mpc := .park } else none
  | .mPark =>
    if s.mpc = .park ∧ s.mainTok = true then some { s with mainTok := false, mpc := .check } else none

inductive Reach (n : Nat) (ff : Bool) : St → Prop
  | init : Reach n ff (St.init n ff)
  | step {s s' : St} (l : Label) : Reach n ff s → step l s = some s' → Reach n ff s'

end NexoVerif.Pool
