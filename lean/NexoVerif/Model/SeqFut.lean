/-!
M-SEQ: `util/seq_futures.rs` — the compound future into which `step_to_next_bounded` puts all actions that were pulled
with the same (time, origin) key.  A sub-future is anything that, each time it is polled, is either ready or pending
(an oracle decides); `poll` is the loop of the source: poll the current sub-future, on `Ready` advance and stop with
`Ready` when the index reaches the length, on `Pending` return `Pending`.
-/
namespace NexoVerif.SeqFut

inductive Ev
  | polled (k : Nat)       -- sub-future `k` was polled
  | completed (k : Nat)    -- sub-future `k` returned `Ready`
deriving Repr, DecidableEq

structure St where
  len : Nat
  idx : Nat := 0
  done : Bool := false
  log : List Ev := []

/-- one call of `SeqFuture::poll`; `ready k n` tells whether sub-future `k` is ready at its `n`-th poll overall
(`fuel` bounds the loop, `len` is always enough) -/
def pollLoop (ready : Nat → Nat → Bool) : Nat → St → St
  | 0, s => s
  | fuel + 1, s =>
    let s1 := { s with log := s.log ++ [.polled s.idx] }
    if ready s.idx s.log.length then
      let s2 := { s1 with log := s1.log ++ [.completed s.idx], idx := s.idx + 1 }
      if s2.idx = s2.len then { s2 with done := true } else pollLoop ready fuel s2
    else s1

def poll (ready : Nat → Nat → Bool) (s : St) : St := if s.done then s else pollLoop ready s.len s

/-- the executor polls the compound future any number of times, with any readiness oracle each time -/
inductive Reach (n : Nat) : St → Prop
  | init : Reach n { len := n }
  | poll {s : St} (ready : Nat → Nat → Bool) : Reach n s → Reach n (poll ready s)

/-- reads a log from the left with the number of sub-futures completed so far: every poll must be of the sub-future
with exactly that index (all earlier ones have completed, it has not), every completion must be of that sub-future too;
returns the number completed at the end -/
def wf : Nat → List Ev → Option Nat
  | c, [] => some c
  | c, .polled k :: l => if k = c then wf c l else none
  | c, .completed k :: l => if k = c then wf (c + 1) l else none

def comps : List Ev → List Nat
  | [] => []
  | .polled _ :: l => comps l
  | .completed k :: l => k :: comps l

end NexoVerif.SeqFut
