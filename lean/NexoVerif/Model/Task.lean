/-
M-TASK — the task state word and its four handle kinds (`executor/task.rs`, `task/runnable.rs`,
`task/promise.rs`, `task/cancel_token.rs`, `task/util.rs`).

Field-level state: `wake`, `ref` (counters), `closed`, `polling` (flags) — the four fields of the 64-bit
state word — plus `core ∈ {fut, out, gone}` (what the `TaskCore` union holds), `live` (memory not yet
deallocated) and the program counters of the handles: the `Runnable` (`run`; `wc` is its local `wake_count`),
the `Promise`, the `CancelToken`, a *counter* of `Waker`s (unboundedly many), and `fin`, the finalisation
(drop future/output, dealloc) being performed by whoever released the last reference.  Every atomic RMW of
the source is one labelled step; a step that would touch freed memory, poll a missing future or create a
second `Runnable` sets `bad`.  Ghost counters record polls, future/output drops and deallocations.
The state is deliberately flat (Nat/Bool/enums) so that `grind` discharges the invariant per transition.
No imports.
-/
namespace NexoVerif.TaskM

inductive Core | fut | out | gone
deriving DecidableEq, Repr, Inhabited

inductive RPc
  | none | queued | loaded | polling | readyA | readyB | readyC | readyD | pend | cancelA | cancelB
deriving DecidableEq, Repr, Inhabited

inductive TPc | none | idle | dropFut | decRef
deriving DecidableEq, Repr, Inhabited

inductive PPc | none | idle | taking
deriving DecidableEq, Repr, Inhabited

inductive Fin | none | dropFutThenFree | dropOutThenFree | free
deriving DecidableEq, Repr, Inhabited

structure S where
  wake : Nat
  ref : Nat
  closed : Bool
  polling : Bool
  core : Core
  live : Bool
  wakers : Nat
  promise : PPc
  token : TPc
  run : RPc
  wc : Nat          -- the Runnable's local `wake_count`
  fin : Fin
  futDrops : Nat
  outMade : Nat
  outDrops : Nat
  frees : Nat
  polls : Nat
  bad : Bool
deriving Repr, Inhabited

def spawn : S :=
  { wake := 1, ref := 2, closed := false, polling := true, core := .fut, live := true, wakers := 0,
    promise := .idle, token := .idle, run := .queued, wc := 0, fin := .none,
    futDrops := 0, outMade := 0, outDrops := 0, frees := 0, polls := 0, bad := false }

def spawnAndForget : S := { spawn with ref := 1, promise := .none }

/-- `runnable_exists(state)` of util.rs -/
def S.rex (s : S) : Bool := s.polling && (s.wake != 0 || s.closed)

inductive Label
  | wClone | wWakeRef | wWakeVal | wDrop
  | rStart | rPollBegin | rPollPending | rPollReady | rPollPanic
  | rReadyA | rReadyB | rReadyC | rReadyD | rPend | rDropQueued | rCancelA | rCancelB
  | tCancel | tDropFut | tDecRef | tDrop
  | pPoll | pTake | pDrop
  | finStep
deriving DecidableEq, Repr, Inhabited

def S.oops (s : S) : S := { s with bad := true }

def finOfOld (polling closed : Bool) : Fin :=
  if polling then .dropFutThenFree else if !closed then .dropOutThenFree else .free

def S.hasWakerRef (s : S) : Bool := s.wakers != 0 || s.run == .polling

def S.wakeCore (s : S) : S :=
  if s.wake == 0 && s.polling && !s.closed then
    (if s.run != .none then { s with wake := s.wake + 1, bad := true }
     else { s with wake := s.wake + 1, run := .queued })
  else { s with wake := s.wake + 1 }

def stepWClone (s : S) : Option S :=
  if s.hasWakerRef then some { s with ref := s.ref + 1, wakers := s.wakers + 1 } else none

def stepWWakeRef (s : S) : Option S := if s.hasWakerRef then some s.wakeCore else none

def stepWWakeVal (s : S) : Option S :=
  if s.wakers == 0 then none else
  let s1 := { s.wakeCore with ref := s.ref - 1, wakers := s.wakers - 1 }
  if s.ref == 1 && !s.polling then
    some { s1 with fin := if !s.closed then .dropOutThenFree else .free }
  else some s1

def stepWDrop (s : S) : Option S :=
  if s.wakers == 0 then none else
  let s1 := { s with ref := s.ref - 1, wakers := s.wakers - 1 }
  if s.ref == 1 && !s.rex then some { s1 with fin := finOfOld s.polling s.closed } else some s1

def stepRStart (s : S) : Option S :=
  if s.run == .queued then
    some (if s.closed then { s with run := .cancelA } else { s with run := .loaded, wc := s.wake })
  else none

def stepRPollBegin (s : S) : Option S :=
  if s.run == .loaded then
    (if s.core != .fut then some s.oops else some { s with run := .polling, polls := s.polls + 1 })
  else none

def stepRPollPending (s : S) : Option S := if s.run == .polling then some { s with run := .pend } else none
def stepRPollReady (s : S) : Option S := if s.run == .polling then some { s with run := .readyA } else none
def stepRPollPanic (s : S) : Option S := if s.run == .polling then some { s with run := .cancelA } else none

def stepRReadyA (s : S) : Option S :=
  if s.run == .readyA then
    (if s.core != .fut then some s.oops
     else some { s with core := .out, futDrops := s.futDrops + 1, outMade := s.outMade + 1, run := .readyB })
  else none

def stepRReadyB (s : S) : Option S :=
  if s.run == .readyB then
    (if s.closed || s.ref == 0 then some { s with run := .readyC }
     else some { s with polling := false, run := .none })
  else none

def stepRReadyC (s : S) : Option S :=
  if s.run == .readyC then
    (if s.core != .out then some s.oops
     else some { s with core := .gone, outDrops := s.outDrops + 1, run := .readyD })
  else none

def stepRReadyD (s : S) : Option S :=
  if s.run == .readyD then
    (if s.ref == 0 then some { s with polling := false, run := .none, fin := .free }
     else some { s with polling := false, run := .none })
  else none

def stepRPend (s : S) : Option S :=
  if s.run == .pend then
    (if s.wake < s.wc then some s.oops else
     if s.wake - s.wc == 0 && !s.closed then
       (if s.ref == 0 then some { s with wake := s.wake - s.wc, run := .none, fin := .dropFutThenFree }
        else some { s with wake := s.wake - s.wc, run := .none })
     else if s.closed then some { s with wake := s.wake - s.wc, run := .cancelA }
     else some { s with wake := s.wake - s.wc, run := .loaded, wc := s.wake - s.wc })
  else none

def stepRDropQueued (s : S) : Option S := if s.run == .queued then some { s with run := .cancelA } else none

def stepRCancelA (s : S) : Option S :=
  if s.run == .cancelA then
    (if s.core != .fut then some s.oops
     else some { s with core := .gone, futDrops := s.futDrops + 1, run := .cancelB })
  else none

def stepRCancelB (s : S) : Option S :=
  if s.run == .cancelB then
    (if s.ref == 0 then some { s with closed := true, polling := false, run := .none, fin := .free }
     else some { s with closed := true, polling := false, run := .none })
  else none

def stepTCancel (s : S) : Option S :=
  if s.token == .idle then
    (if !s.polling then
       (if s.ref == 1 then
          some { s with ref := s.ref - 1, token := .none, fin := if !s.closed then .dropOutThenFree else .free }
        else some { s with ref := s.ref - 1, token := .none })
     else if s.rex then some { s with closed := true, ref := s.ref - 1, token := .none }
     else some { s with closed := true, polling := false, token := .dropFut })
  else none

def stepTDropFut (s : S) : Option S :=
  if s.token == .dropFut then
    (if s.core != .fut then some s.oops
     else some { s with core := .gone, futDrops := s.futDrops + 1, token := .decRef })
  else none

def stepTDecRef (s : S) : Option S :=
  if s.token == .decRef then
    (if s.ref == 1 then some { s with ref := s.ref - 1, token := .none, fin := .free }
     else some { s with ref := s.ref - 1, token := .none })
  else none

def stepTDrop (s : S) : Option S :=
  if s.token == .idle then
    (if s.ref == 1 && !s.rex then some { s with ref := s.ref - 1, token := .none, fin := finOfOld s.polling s.closed }
     else some { s with ref := s.ref - 1, token := .none })
  else none

def stepPPoll (s : S) : Option S :=
  if s.promise == .idle then
    (if !s.polling && !s.closed then some { s with closed := true, promise := .taking } else some s)
  else none

def stepPTake (s : S) : Option S :=
  if s.promise == .taking then
    (if s.core != .out then some s.oops
     else some { s with core := .gone, outDrops := s.outDrops + 1, promise := .idle })
  else none

def stepPDrop (s : S) : Option S :=
  if s.promise == .idle then
    (if s.ref == 1 && !s.rex then some { s with ref := s.ref - 1, promise := .none, fin := finOfOld s.polling s.closed }
     else some { s with ref := s.ref - 1, promise := .none })
  else none

def stepFin (s : S) : Option S :=
  match s.fin with
  | .dropFutThenFree =>
    if s.core != .fut then some s.oops else some { s with core := .gone, futDrops := s.futDrops + 1, fin := .free }
  | .dropOutThenFree =>
    if s.core != .out then some s.oops else some { s with core := .gone, outDrops := s.outDrops + 1, fin := .free }
  | .free => some { s with live := false, frees := s.frees + 1, fin := .none }
  | .none => none

def step (l : Label) (s : S) : Option S :=
  if !s.live then none else
  match l with
  | .wClone => stepWClone s | .wWakeRef => stepWWakeRef s | .wWakeVal => stepWWakeVal s | .wDrop => stepWDrop s
  | .rStart => stepRStart s | .rPollBegin => stepRPollBegin s | .rPollPending => stepRPollPending s
  | .rPollReady => stepRPollReady s | .rPollPanic => stepRPollPanic s
  | .rReadyA => stepRReadyA s | .rReadyB => stepRReadyB s | .rReadyC => stepRReadyC s | .rReadyD => stepRReadyD s
  | .rPend => stepRPend s | .rDropQueued => stepRDropQueued s | .rCancelA => stepRCancelA s | .rCancelB => stepRCancelB s
  | .tCancel => stepTCancel s | .tDropFut => stepTDropFut s | .tDecRef => stepTDecRef s | .tDrop => stepTDrop s
  | .pPoll => stepPPoll s | .pTake => stepPTake s | .pDrop => stepPDrop s
  | .finStep => stepFin s

inductive Reach : S → Prop
  | spawn : Reach spawn
  | spawnAndForget : Reach spawnAndForget
  | step {s s' : S} (l : Label) : Reach s → step l s = some s' → Reach s'

end NexoVerif.TaskM
