/-
M-NET — networks of models at channel-operation granularity (`channel.rs`: Sender::send / Receiver::recv,
`ports/output/broadcaster.rs`, `ports/output/sender.rs`, `simulation.rs`: add_model / process_event / run,
`simulation/sim_init.rs`).

Tasks are numbered; task `m` with `isModel m` owns mailbox `m` (a FIFO of packets bounded by `cap m`); other
task ids are driver tasks (`process_event`, `process_query`, scheduler actions).  A handler (or init, or a
driver task) is a list of port *operations*; an operation is the list of its sub-sends (one per connection
that accepted the payload, after map/filter), all in flight concurrently (the `BroadcastFuture`); an event
sub-send is complete once pushed, a query sub-send once replied; the operation completes when all are.
Labelled transitions: `init m`, `spawn t ops`, `start t`, `push t i` (enabled iff the recipient has room; a
sink write is always enabled), `deliver m` (idle ∧ mailbox non-empty: pops and starts `react`), `opDone t`,
`finish t` (a replier's finish delivers the reply to the requester).  Ghost history: global arrival log,
per-event causal pasts, global handling log, init log, sink log, in-flight counter `count` (the executor's
`msg_count`).  No imports.
-/
namespace NexoVerif.Net

structure Packet where
  eid : Nat
  src : Nat
  payload : Nat
  query : Bool
  past : List Nat
deriving Repr, Inhabited

inductive SubSt | toPush | pushed | replied
deriving DecidableEq, Repr, Inhabited

/-- where a sub-send goes -/
inductive Dst
  | box (m : Nat)        -- a model's mailbox
  | sink (k : Nat)       -- an event sink (never blocks)
  | dead (m : Nat)       -- a mailbox that was dropped before the simulation started
deriving DecidableEq, Repr, Inhabited

structure Sub where
  dst : Dst
  eid : Nat
  payload : Nat
  query : Bool
  st : SubSt
  reply : Nat := 0
deriving Repr, Inhabited

/-- an event sub-send is complete once pushed; a query sub-send once replied -/
def Sub.done (s : Sub) : Bool := if s.query then s.st == .replied else s.st != .toPush

inductive Phase | notInit | idle | busy | finished
deriving DecidableEq, Repr, Inhabited

/-- one port operation after the connection list has been applied: (dst, payload, isQuery) per accepted connection -/
abbrev Op := List (Dst × Nat × Bool)

structure Task where
  phase : Phase
  cur : List Sub
  rest : List Op
  serving : Option (Nat × Nat)      -- (requester task, eid) while answering a query
  handling : Nat := 0               -- payload being handled (ghost, for the logs)
  past : List Nat
deriving Repr, Inhabited

/-- fatal faults raised while running (`ExecutorError::Panic` with or without a `SendError` payload, `Timeout`) -/
inductive Fault
  | panic (m : Nat)                 -- a model handler panicked
  | noRecipient (t : Nat)           -- task t sent through a port to a dropped mailbox
  | timeout (m : Nat)               -- a handler of model m overran the step timeout
deriving DecidableEq, Repr, Inhabited

inductive FaultKind | panic | sleep
deriving DecidableEq, Repr, Inhabited

structure Prog where
  react : Nat → Nat → List Op       -- model → payload → operations (content-deterministic)
  reply : Nat → Nat → Nat           -- replier model → request payload → reply value
  initOps : Nat → List Op
  initPayload : Nat → Nat := fun _ => 0     -- ghost: what the logs show as handled while init runs
  cap : Nat → Nat
  isModel : Nat → Bool              -- task ids that own a mailbox
  inSim : Nat → Bool                -- the mailbox was added to the simulation (its model task exists)
  faultOn : Nat → Nat → Option FaultKind := fun _ _ => none   -- model → payload → the handler panics / overruns

def upd {α} (f : Nat → α) (i : Nat) (v : α) : Nat → α := fun j => if j = i then v else f j

@[simp] theorem upd_same {α} (f : Nat → α) (i : Nat) (v : α) : upd f i v i = v := by simp [upd]
@[simp] theorem upd_other {α} (f : Nat → α) {i j : Nat} (v : α) (h : j ≠ i) : upd f i v j = f j := by simp [upd, h]

structure St where
  mbox : Nat → List Packet
  task : Nat → Task
  nextEid : Nat
  count : Int                        -- sent minus received (`isize` in the code)
  -- ghost history
  arrLog : List (Nat × Nat)          -- (mailbox, eid) in global arrival order
  pasts : List (Nat × List Nat)      -- eid ↦ causal past attached to the packet when it was pushed
  handled : List (Nat × Nat)         -- (model, eid) in global processing order
  handledP : List (Nat × Nat)        -- (model, payload) in global processing order
  sent : List (Dst × Nat)            -- (dst, eid) of every sub-send ever created
  inits : List Nat                   -- models whose init has started, in order
  sinks : List (Nat × Nat)           -- (sink, payload) in write order
  replies : List (Nat × Nat × List Nat)   -- (task, payload being handled, replies of a completed query operation)
  fault : Option Fault := none       -- once set, the executor stops: nothing else runs

def St.init : St :=
  { mbox := fun _ => [], task := fun _ => ⟨.notInit, [], [], none, 0, []⟩, nextEid := 0, count := 0, arrLog := [],
    pasts := [], handled := [], handledP := [], sent := [], inits := [], sinks := [], replies := [] }

/-- union of two causal pasts (kept duplicate-free so that pasts stay as small as the number of events) -/
def pjoin (a b : List Nat) : List Nat := a ++ b.filter (fun x => !a.contains x)

theorem mem_pjoin {a b : List Nat} {x : Nat} : x ∈ pjoin a b ↔ x ∈ a ∨ x ∈ b := by
  unfold pjoin
  simp only [List.mem_append, List.mem_filter, List.contains_eq_mem, Bool.not_eq_true', decide_eq_false_iff_not]
  constructor
  · rintro (h | ⟨h, _⟩)
    · exact Or.inl h
    · exact Or.inr h
  · rintro (h | h)
    · exact Or.inl h
    · by_cases hx : x ∈ a
      · exact Or.inl hx
      · exact Or.inr ⟨h, hx⟩

/-- number the sub-sends of one operation with fresh event ids -/
def mkSubs (e : Nat) : Op → List Sub
  | [] => []
  | (d, p, q) :: r =>
    -- a requestor port cannot be connected to an event sink: a "query to a sink" is an event
    { dst := d, eid := e, payload := p, query := (match d with | .sink _ => false | _ => q), st := .toPush } :: mkSubs (e + 1) r

inductive Label
  | init (m : Nat)                      -- model m's task starts with its init script
  | spawn (t : Nat) (ops : List Op)     -- the driver / scheduler spawns a sending task
  | start (t : Nat)                     -- begin the next port operation
  | push (t i : Nat)                    -- i-th sub-send of t's current operation is delivered
  | deliver (m : Nat)                   -- model m pops its mailbox and starts handling
  | opDone (t : Nat)                    -- current operation completed
  | finish (t : Nat)                    -- handler (or init, or driver task) returns
deriving Repr, Inhabited

def setSt (l : List Sub) (i : Nat) (st : SubSt) : List Sub :=
  match l, i with
  | [], _ => []
  | s :: r, 0 => { s with st := st } :: r
  | s :: r, i + 1 => s :: setSt r i st

/-- event ids of the sub-sends that went to a mailbox (sink writes and failed sends are not arrivals) -/
def boxEids (l : List Sub) : List Nat :=
  l.filterMap fun s => match s.dst with | .box _ => some s.eid | _ => none

/-- mark as replied the query sub-send with event id `e` -/
def markReplied (l : List Sub) (e : Nat) (v : Nat) : List Sub :=
  l.map (fun s => if s.eid = e ∧ s.st = .pushed then { s with st := .replied, reply := v } else s)

def step (P : Prog) (l : Label) (s : St) : Option St :=
  if s.fault.isSome then none else
  match l with
  | .init m =>
    let t := s.task m
    if t.phase = .notInit ∧ P.isModel m = true ∧ P.inSim m = true then
      some { s with task := upd s.task m { t with phase := .busy, rest := P.initOps m, handling := P.initPayload m },
                    inits := s.inits ++ [m] }
    else none
  | .spawn t ops =>
    let tk := s.task t
    if P.isModel t = false ∧ (tk.phase = .finished ∨ tk.phase = .notInit) ∧ tk.cur = [] ∧ tk.rest = [] then
      some { s with task := upd s.task t { tk with phase := .busy, rest := ops, serving := none } }
    else none
  | .start t =>
    let tk := s.task t
    match tk.phase, tk.cur, tk.rest with
    | .busy, [], op :: ops =>
      let subs := mkSubs s.nextEid op
      some { s with task := upd s.task t { tk with cur := subs, rest := ops },
                    nextEid := s.nextEid + op.length,
                    sent := s.sent ++ subs.map (fun x => (x.dst, x.eid)) }
    | _, _, _ => none
  | .push t i =>
    let tk := s.task t
    match tk.cur[i]? with
    | some sub =>
      if sub.st = .toPush then
        match sub.dst with
        | .sink k =>
          some { s with task := upd s.task t { tk with cur := setSt tk.cur i .pushed },
                        sinks := s.sinks ++ [(k, sub.payload)] }
        | .dead _ => some { s with fault := some (.noRecipient t) }
        | .box d =>
          if (s.mbox d).length < P.cap d then
            some { s with
              task := upd s.task t { tk with cur := setSt tk.cur i .pushed },
              mbox := upd s.mbox d (s.mbox d ++ [⟨sub.eid, t, sub.payload, sub.query, sub.eid :: tk.past⟩]),
              arrLog := s.arrLog ++ [(d, sub.eid)],
              pasts := s.pasts ++ [(sub.eid, tk.past)],
              count := s.count + 1 }
          else none
      else none
    | none => none
  | .deliver m =>
    let tk := s.task m
    match tk.phase, s.mbox m with
    | .idle, p :: ps =>
      let flt : Option Fault := match P.faultOn m p.payload with
        | some .panic => some (.panic m)
        | some .sleep => some (.timeout m)
        | none => none
      some { s with
        fault := flt,
        mbox := upd s.mbox m ps,
        count := s.count - 1,
        handled := s.handled ++ [(m, p.eid)],
        handledP := s.handledP ++ [(m, p.payload)],
        task := upd s.task m { tk with phase := .busy, rest := P.react m p.payload,
                                       serving := if p.query then some (p.src, p.eid) else none,
                                       handling := p.payload,
                                       past := pjoin p.past tk.past } }
    | _, _ => none
  | .opDone t =>
    let tk := s.task t
    if tk.phase = .busy ∧ tk.cur ≠ [] ∧ tk.cur.all Sub.done then
      some { s with task := upd s.task t { tk with cur := [], past := pjoin (boxEids tk.cur) tk.past },
                    replies := if tk.cur.any (·.query) then
                                 s.replies ++ [(t, tk.handling, (tk.cur.filter (·.query)).map (·.reply))]
                               else s.replies }
    else none
  | .finish t =>
    let tk := s.task t
    if tk.phase = .busy ∧ tk.cur = [] ∧ tk.rest = [] then
      let ph := if P.isModel t then Phase.idle else Phase.finished
      match tk.serving with
      | none => some { s with task := upd s.task t { tk with phase := ph, serving := none } }
      | some (r, e) =>
        let rq := s.task r
        let tasks1 := upd s.task r { rq with cur := markReplied rq.cur e (P.reply t tk.handling), past := pjoin tk.past rq.past }
        some { s with task := upd tasks1 t { (tasks1 t) with phase := ph, serving := none } }
    else none

def arrivals (s : St) (m : Nat) : List Nat := (s.arrLog.filter (fun x => x.1 == m)).map (·.2)
def handledBy (s : St) (m : Nat) : List Nat := (s.handled.filter (fun x => x.1 == m)).map (·.2)

inductive Reach (P : Prog) : St → Prop
  | init : Reach P St.init
  | step {s s' : St} (l : Label) : Reach P s → step P l s = some s' → Reach P s'

/-! ### what `Simulation::run` reports, from the state the executor stopped in -/

inductive Report
  | ok
  | panic (m : Nat)
  | noRecipient (m : Option Nat)
  | timeout
  | deadlock (boxes : List (Nat × Nat))     -- (model, mailbox size) in registration order
  | messageLoss (n : Nat)
deriving DecidableEq, Repr

/-- `run()`: the executor returns `UnprocessedMessages(count)` iff `count ≠ 0`; the simulation then inspects the
observers of the mailboxes registered with the simulation (`simBoxes`, in registration order). -/
def report (P : Prog) (s : St) (simBoxes : List Nat) : Report :=
  match s.fault with
  | some (.panic m) => .panic m
  | some (.noRecipient t) => .noRecipient (if P.isModel t then some t else none)
  | some (.timeout _) => .timeout
  | none =>
  if s.count = 0 then .ok
  else
    let dl := (simBoxes.filter (fun m => (s.mbox m).length ≠ 0)).map (fun m => (m, (s.mbox m).length))
    if dl.isEmpty then .messageLoss s.count.toNat else .deadlock dl

end NexoVerif.Net
