/-
M-HEAP — transliteration of the binary heap inside `util/indexed_priority_queue.rs`.

The mid-level model `NexoVerif.PQ.IPQ` abstracts `heap : Vec<Item<K>>` and the two loops `sift_up` / `sift_down` to
"the used node with the least (key, epoch)".  This file models what the code does: the heap array, the slab with the
back-pointing `heap_idx` of every node, the free list, and the two loops with their "hole": the item being sifted is
kept aside, parents (children) are moved into the vacant spot together with the back-pointer of their slab node, and
the item is written once at the end.

Reads use a default outside the array and writes outside the array do nothing (Rust would panic on both).  At the level
of the three operations an index outside an array or an `unwrap_*` of the wrong node kind sets `err`; inside the two
loops the heap indices are inside the array by the loop conditions and the slab accesses are shown to hit a used node
inside the slab by the cross-index invariant (Lemmas/HeapCross.lean: every `setH` of a loop is rewritten with
`rd_setH_same`, which needs exactly that).  Keys, values, epochs are `Nat`.  No imports.
-/
namespace NexoVerif.Heap

/-- `Item<K>`: `UniqueKey { key, epoch }` and the index of the slab node. -/
structure HItem where
  key   : Nat
  epoch : Nat
  slab  : Nat
  deriving Repr, DecidableEq, Inhabited

/-- derived `PartialOrd` of `UniqueKey`: lexicographic on `(key, epoch)` -/
def HItem.lt (a b : HItem) : Prop := a.key < b.key ∨ (a.key = b.key ∧ a.epoch < b.epoch)

instance (a b : HItem) : Decidable (a.lt b) := by unfold HItem.lt; exact inferInstance

/-- `Node<V>` -/
inductive SNode where
  | free (next : Option Nat)
  | used (val : Nat) (hidx : Nat)
  deriving Repr, DecidableEq, Inhabited

/-- read with a default outside the array -/
def rd {α : Type} [Inhabited α] (a : Array α) (i : Nat) : α := (a[i]?).getD default

/-- write; nothing happens outside the array -/
def wr {α : Type} (a : Array α) (i : Nat) (v : α) : Array α := a.setIfInBounds i v

/-- `*self.slab[j].unwrap_heap_index_mut() = i` -/
def setH (s : Array SNode) (j i : Nat) : Array SNode :=
  match rd s j with
  | .used v _ => wr s j (.used v i)
  | .free _   => s

/-- the end of both loops: the item is written into the vacant spot and its node is pointed at it -/
def place (h : Array HItem) (s : Array SNode) (item : HItem) (i : Nat) : Array HItem × Array SNode :=
  (wr h i item, setH s item.slab i)

/-- `sift_up(item, heap_idx)`.  The second test of the loop body (after the parent has been moved down) is in the
source; it reads the same, unchanged parent and therefore never fires — it is transliterated as it stands. -/
def siftUp (h : Array HItem) (s : Array SNode) (item : HItem) (i : Nat) : Array HItem × Array SNode :=
  if h0 : i = 0 then place h s item i
  else
    let p := (i - 1) / 2
    if ¬ item.lt (rd h p) then place h s item i
    else
      let h' := wr h i (rd h p)
      let s' := setH s (rd h p).slab i
      if ¬ item.lt (rd h' p) then place h' s' item i
      else siftUp h' s' item p
termination_by i
decreasing_by omega

/-- the child chosen by `sift_down`: the right one when it exists and is smaller than the left one -/
def pickChild (h : Array HItem) (c : Nat) : Nat :=
  if c + 1 < h.size ∧ (rd h (c + 1)).lt (rd h c) then c + 1 else c

/-- `sift_down(item, heap_idx)` -/
def siftDown (h : Array HItem) (s : Array SNode) (item : HItem) (p : Nat) : Array HItem × Array SNode :=
  if hc : 2 * p + 1 < h.size then
    let c := pickChild h (2 * p + 1)
    if ¬ (rd h c).lt item then place h s item p
    else siftDown (wr h p (rd h c)) (setH s (rd h c).slab p) item c
  else place h s item p
termination_by h.size - p
decreasing_by
  simp only [wr, Array.size_setIfInBounds, pickChild]
  split <;> omega

structure HQ where
  heap      : Array HItem
  slab      : Array SNode
  firstFree : Option Nat
  nextEpoch : Nat
  err       : Bool := false          -- an `unwrap_*` of the wrong node kind: the Rust code would have panicked
  deriving Repr

def HQ.new : HQ := { heap := #[], slab := #[], firstFree := none, nextEpoch := 0 }

def HQ.len (q : HQ) : Nat := q.heap.size

/-- `insert(key, value)`: the new queue and the raw parts `(slab_idx, epoch)` of the `InsertKey` -/
def HQ.insert (q : HQ) (k v : Nat) : HQ × (Nat × Nat) :=
  let e := q.nextEpoch
  match q.firstFree with
  | some idx =>
    if idx < q.slab.size then
      match rd q.slab idx with
      | .free nx =>
        let s := wr q.slab idx (.used v 0)
        let hs := siftUp (q.heap.push { key := k, epoch := e, slab := 0 }) s { key := k, epoch := e, slab := idx } q.heap.size
        ({ q with heap := hs.1, slab := hs.2, firstFree := nx, nextEpoch := e + 1 }, (idx, e))
      | .used _ _ => ({ q with err := true }, (idx, e))  -- `unwrap_next_free_node` panics
    else ({ q with err := true }, (idx, e))              -- index out of bounds
  | none =>
    let idx := q.slab.size
    let s := q.slab.push (.used v 0)
    let hs := siftUp (q.heap.push { key := k, epoch := e, slab := 0 }) s { key := k, epoch := e, slab := idx } q.heap.size
    ({ q with heap := hs.1, slab := hs.2, nextEpoch := e + 1 }, (idx, e))

def HQ.peekKey (q : HQ) : Option Nat := if q.heap.size = 0 then none else some (rd q.heap 0).key

def HQ.peek (q : HQ) : Option (Nat × Nat) :=
  if q.heap.size = 0 then none
  else match rd q.slab (rd q.heap 0).slab with
    | .used v _ => some ((rd q.heap 0).key, v)
    | .free _   => none                                   -- `unwrap_value_ref` panics (excluded by `HInv`)

/-- `pull()` -/
def HQ.pull (q : HQ) : HQ × Option (Nat × Nat) :=
  if q.heap.size = 0 then (q, none)
  else
    let top := rd q.heap 0
    if top.slab < q.slab.size then
      match rd q.slab top.slab with
      | .free _ => ({ q with err := true }, none)          -- `unwrap_value` panics
      | .used v _ =>
        let s := wr q.slab top.slab (.free q.firstFree)
        let last := rd q.heap (q.heap.size - 1)
        let h := q.heap.pop
        let hs := if last.slab ≠ top.slab then siftDown h s last 0 else (h, s)
        ({ q with heap := hs.1, slab := hs.2, firstFree := some top.slab }, some (top.key, v))
    else ({ q with err := true }, none)                    -- index out of bounds

/-- `extract(InsertKey { slab_idx, epoch })` -/
def HQ.extract (q : HQ) (idx e : Nat) : HQ × Option (Nat × Nat) :=
  if idx < q.slab.size then
    match rd q.slab idx with
    | .free _ => (q, none)
    | .used v hi =>
      if hi < q.heap.size then
        if (rd q.heap hi).epoch ≠ e then (q, none)
        else
          let s := wr q.slab idx (.free q.firstFree)
          let key := (rd q.heap hi).key
          let last := rd q.heap (q.heap.size - 1)
          let h := q.heap.pop
          let hs :=
            if hi < h.size then
              if last.lt (rd h hi) then siftUp h s last hi else siftDown h s last hi
            else (h, s)
          ({ q with heap := hs.1, slab := hs.2, firstFree := some idx }, some (key, v))
      else ({ q with err := true }, none)                  -- index out of bounds
  else (q, none)

/-- the layout, for the comparison with the real arrays: heap as `(key, epoch, slab_idx)`, slab as `F next` / `U val heap_idx` -/
def HQ.raw (q : HQ) : String :=
  let hs := q.heap.toList.map fun it => s!"{it.key}:{it.epoch}:{it.slab}"
  let ss := q.slab.toList.map fun n => match n with
    | .free none => "F-"
    | .free (some k) => s!"F{k}"
    | .used v hi => s!"U{v}:{hi}"
  let ff := match q.firstFree with | none => "-" | some k => toString k
  s!"heap=[{",".intercalate hs}] slab=[{",".intercalate ss}] free={ff} epoch={q.nextEpoch}"

inductive HOp where
  | ins (k v : Nat)
  | pull
  | ext (i e : Nat)
  deriving Repr, DecidableEq

def HQ.stepOp (q : HQ) : HOp → HQ
  | .ins k v => (q.insert k v).1
  | .pull    => q.pull.1
  | .ext i e => (q.extract i e).1

def HQ.runOps (q : HQ) (ops : List HOp) : HQ := ops.foldl HQ.stepOp q

end NexoVerif.Heap
