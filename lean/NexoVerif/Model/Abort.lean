/-
M-ABORT — how the multi-threaded executor makes its workers leave: `abort_signal.set()` followed by
`pool_manager.activate_all_workers()` (in `Executor::drop`, on a time-out in `Executor::run`, and in a worker that caught
a model panic), against the loop of `run_local_worker`, which looks at the abort signal after the parking block of every
turn of its outer loop and before every task it runs.

Any number of workers; every interleaving of the steps below; sequentially consistent.  The parker of a worker holds at
most one token: `unpark` sets it, `park` takes it or blocks until it is set.  Everything else a worker does (searching,
stealing, running a task, the pool manager's flags) is abstracted to "it may go on, and anybody may unpark anybody at any
moment" (`extraUnpark`), which only adds behaviours.  No imports.
-/
namespace NexoVerif.Abort

/-- where a worker is in `run_local_worker` -/
inductive WPc where
  | head      -- top of the outer loop, before the parking block
  | parking   -- has decided to park (deactivated itself, or was the last active worker), about to call `park()`
  | parked    -- blocked inside `park()`
  | check     -- `if abort_signal.is_set() { return }` after the parking block
  | run       -- the inner loops: before each task `if abort_signal.is_set() { return }`, then `task.run()`
  | exited
  deriving DecidableEq, Repr

/-- the thread that raises the abort: sets the signal, unparks the workers one after the other, is done -/
inductive APc where
  | idle
  | unparking (k : Nat)
  | done
  deriving DecidableEq, Repr

structure St where
  n     : Nat
  abort : Bool
  tok   : Nat → Bool
  pc    : Nat → WPc
  agent : APc
  /-- switches for the two counter-models: signal set before the unparks; every worker unparked, parked or not -/
  abortFirst : Bool
  unparkAll  : Bool

def upd {α : Type} (f : Nat → α) (i : Nat) (v : α) : Nat → α := fun j => if j = i then v else f j

@[simp] theorem upd_same {α : Type} (f : Nat → α) (i : Nat) (v : α) : upd f i v i = v := by simp [upd]
theorem upd_other {α : Type} (f : Nat → α) (i j : Nat) (v : α) (h : j ≠ i) : upd f i v j = f j := by simp [upd, h]

inductive Label where
  | wDecidePark (i : Nat)   -- head → parking
  | wSkipPark (i : Nat)     -- head → check   (`begin_worker_search()` branch: no park this turn)
  | wPark (i : Nat)         -- `park()`: takes the token, or blocks
  | wWake (i : Nat)         -- blocked in `park()` and the token is there
  | wCheck (i : Nat)        -- the abort test after the parking block
  | wTask (i : Nat)         -- the abort test before a task, then the task
  | wRunDone (i : Nat)      -- nothing left to run or to steal: back to the top of the outer loop
  | extraUnpark (j : Nat)   -- anybody unparks worker j (a task scheduling another one, a second abort, …)
  | aStart                  -- the aborting thread begins
  | aUnpark                 -- … unparks the next worker
  | aSetLate                -- (counter-model `abortFirst = false` only) the signal is set after the unparks
  deriving DecidableEq, Repr

def step (l : Label) (s : St) : Option St :=
  match l with
  | .wDecidePark i => if i < s.n ∧ s.pc i = .head then some { s with pc := upd s.pc i .parking } else none
  | .wSkipPark i => if i < s.n ∧ s.pc i = .head then some { s with pc := upd s.pc i .check } else none
  | .wPark i =>
    if i < s.n ∧ s.pc i = .parking then
      if s.tok i then some { s with tok := upd s.tok i false, pc := upd s.pc i .check }
      else some { s with pc := upd s.pc i .parked }
    else none
  | .wWake i =>
    if i < s.n ∧ s.pc i = .parked ∧ s.tok i = true then some { s with tok := upd s.tok i false, pc := upd s.pc i .check }
    else none
  | .wCheck i =>
    if i < s.n ∧ s.pc i = .check then
      some { s with pc := upd s.pc i (if s.abort then .exited else .run) }
    else none
  | .wTask i =>
    if i < s.n ∧ s.pc i = .run then
      some { s with pc := upd s.pc i (if s.abort then .exited else .run) }
    else none
  | .wRunDone i => if i < s.n ∧ s.pc i = .run then some { s with pc := upd s.pc i .head } else none
  | .extraUnpark j => if j < s.n then some { s with tok := upd s.tok j true } else none
  | .aStart =>
    if s.agent = .idle then some { s with abort := s.abortFirst || s.abort, agent := .unparking 0 } else none
  | .aUnpark =>
    match s.agent with
    | .unparking k =>
      if k < s.n then
        -- `unparkAll = false`: only a worker that is parked (idle) is unparked
        if s.unparkAll || s.pc k == .parked then some { s with tok := upd s.tok k true, agent := .unparking (k + 1) }
        else some { s with agent := .unparking (k + 1) }
      else some { s with agent := .done }
    | _ => none
  | .aSetLate => if s.agent = .done ∧ s.abort = false then some { s with abort := true } else none

/-- every worker somewhere in its loop, any tokens, nobody aborting yet -/
def St.init (n : Nat) (pc : Nat → WPc) (tok : Nat → Bool) (abortFirst unparkAll : Bool) : St :=
  { n := n, abort := false, tok := tok, pc := pc, agent := .idle, abortFirst := abortFirst, unparkAll := unparkAll }

inductive Reach (n : Nat) (abortFirst unparkAll : Bool) : St → Prop
  | init (pc tok) (h : ∀ i, pc i ≠ .exited) : Reach n abortFirst unparkAll (St.init n pc tok abortFirst unparkAll)
  | step {s s'} (l : Label) : Reach n abortFirst unparkAll s → step l s = some s' → Reach n abortFirst unparkAll s'

def runLabels (ls : List Label) (s : St) : Option St :=
  ls.foldlM (fun s l => step l s) s

/-- how far a worker is from leaving once the signal is set -/
def rank : WPc → Nat
  | .run => 4 | .head => 3 | .parking => 2 | .parked => 2 | .check => 1 | .exited => 0

def total : Nat → (Nat → Nat) → Nat
  | 0, _ => 0
  | n + 1, f => total n f + f n

end NexoVerif.Abort
