/-
M-SCHED — executable model of the scheduler queue and of time stepping
(`simulation.rs`: step, step_until, process*, step_to_next_bounded; `simulation/scheduler.rs`:
schedule_from & friends, ActionKey; `time/clock.rs`: Clock::synchronize).

Times are `Nat` nanoseconds.  The scheduler queue `PriorityQueue<(MonotonicTime, usize), Action>` is
kept as a list sorted by `(time, origin, epoch)` with stable ordered insertion; `pull`/`peek` are the
head (justified by `pq_refines_stable_sorted_list` of C20).  Origin 0 is the global `Scheduler`,
origin `m+1` is model `m`'s own context (the harness numbers models by increasing channel id, which
is what the real queue compares).

The function is split the way the code is locked: `lockedPhase` (discard cancelled heads, head test,
time write, pull loop, and — when nothing is due and the caller is `step_until` — the final time
write; all under the queue mutex) and `afterLock` (synchronize, tolerance test, run to quiescence).
No imports.
-/
namespace NexoVerif.Sched

structure Entry where
  time    : Nat
  origin  : Nat
  epoch   : Nat
  aid     : Nat              -- action id (payload seen by the handler)
  period  : Option Nat
  key     : Option Nat       -- ActionKey *object* id, if keyed (= epoch of the original entry; periodic clones share it)
  targets : List Nat         -- models whose input receives the event (EventSource: all connected)
  recheck : Bool             -- keyed event on a model input: cancellation re-checked by the model
deriving Repr, DecidableEq, Inhabited

/-- strict key order (time, origin, epoch) -/
def Entry.lt (a b : Entry) : Bool :=
  a.time < b.time || (a.time == b.time && (a.origin < b.origin || (a.origin == b.origin && a.epoch < b.epoch)))

def Entry.sameKey (a b : Entry) : Bool := a.time == b.time && a.origin == b.origin

/-- ordered insertion: after every element that is not greater -/
def insert (e : Entry) : List Entry → List Entry
  | [] => [e]
  | x :: xs => if e.lt x then e :: x :: xs else x :: insert e xs

inductive Res
  | ok | invalidTime | nullPeriod | terminated | invalidDeadline | outOfSync (lag : Nat)
  | diverged            -- fuel exhausted: proved unreachable (`stepUntil_returns`)
deriving Repr, DecidableEq, Inhabited

inductive Obs
  | setTime (t : Nat)
  | sync (t : Nat)
  | fire (aid model deadline seen : Nat)
  | skip (aid model : Nat)    -- keyed model event found cancelled by its model
  | discard (aid : Nat)       -- cancelled head discarded by the stepper
  | ext (aid : Nat) (accepted : Bool)   -- a `Scheduler` handle used from outside while the queue is unlocked
deriving Repr, DecidableEq, Inhabited

structure St where
  now : Nat
  queue : List Entry
  nextEpoch : Nat
  cancelled : List Nat         -- cancelled ActionKey objects
  keys : List (Nat × Nat)      -- registry: (name used by the scripts, ActionKey object) in creation order
  terminated : Bool
  tol : Option Nat
  syncCalls : Nat
  log : List Obs               -- newest first
deriving Repr, Inhabited

def St.init (t0 : Nat) (tol : Option Nat) : St :=
  { now := t0, queue := [], nextEpoch := 0, cancelled := [], keys := [], terminated := false, tol := tol,
    syncCalls := 0, log := [] }

def St.isCancelled (s : St) (e : Entry) : Bool :=
  match e.key with
  | none => false
  | some k => s.cancelled.contains k

/-- a scheduling request (driver side: `Scheduler::schedule*`, handler side: `Context::schedule*`) -/
structure SchedReq where
  origin : Nat
  abs : Bool            -- absolute deadline?
  dl : Nat
  aid : Nat
  period : Option Nat
  key : Option Nat      -- name under which the returned ActionKey is stored by the caller, if keyed
  targets : List Nat
  recheck : Bool
deriving Repr, DecidableEq, Inhabited

def SchedReq.time (r : SchedReq) (now : Nat) : Nat := if r.abs then r.dl else now + r.dl

/-- `schedule_from` / `schedule_*_event_from` (all under the queue lock). -/
def sched (s : St) (r : SchedReq) : St × Res :=
  if r.period = some 0 then (s, .nullPeriod)
  else if s.now ≥ r.time s.now then (s, .invalidTime)
  else
    let e : Entry := { time := r.time s.now, origin := r.origin, epoch := s.nextEpoch, aid := r.aid,
                       period := r.period, key := r.key.map (fun _ => s.nextEpoch), targets := r.targets,
                       recheck := r.recheck }
    ({ s with queue := insert e s.queue, nextEpoch := s.nextEpoch + 1,
              keys := match r.key with | some k => (k, s.nextEpoch) :: s.keys | none => s.keys }, .ok)

inductive HCmd
  | sched (r : SchedReq)
  | cancel (k : Nat)
deriving Repr, DecidableEq, Inhabited

structure Prog where
  handler : Nat → Nat → Nat → List HCmd   -- aid → model → time → commands
  clock : Nat → Option Nat                -- n-th synchronize call: lag, if any
  ext : Nat → List SchedReq               -- requests issued through a `Scheduler` handle from another
                                          -- thread during the n-th synchronize call (queue unlocked)
  inits : Nat := 0                        -- models 0 .. inits-1 run an init script: `handler (initAid m) m t0`

/-- `ActionKey::cancel` (or dropping an `AutoActionKey`) on every key stored so far under the name `k`. -/
def cancelKey (s : St) (k : Nat) : St :=
  { s with cancelled := (s.keys.filter (·.1 == k)).map (·.2) ++ s.cancelled }

def execH (s : St) : List HCmd → St
  | [] => s
  | .sched r :: cs => execH (sched s r).1 cs
  | .cancel k :: cs => execH (cancelKey s k) cs

def within (t : Nat) : Option Nat → Bool
  | none => true
  | some b => t ≤ b

/-- discard cancelled heads whose time is within the bound -/
def discardCancelled (bound : Option Nat) (s : St) : St :=
  go s.queue s
where
  go : List Entry → St → St
  | [], s => { s with queue := [] }
  | e :: es, s =>
    if within e.time bound && s.isCancelled e then go es { s with log := .discard e.aid :: s.log }
    else { s with queue := e :: es }

/-- pull the head (assumed live), re-inserting a periodic clone -/
def pullHead (s : St) : Option (Entry × St) :=
  match s.queue with
  | [] => none
  | e :: es =>
    let s1 := { s with queue := es }
    match e.period with
    | none => some (e, s1)
    | some p =>
      let c : Entry := { e with time := e.time + p, epoch := s1.nextEpoch }
      some (e, { s1 with queue := insert c s1.queue, nextEpoch := s1.nextEpoch + 1 })

/-- add an entry to the group list: same key as the last pulled → same group (the `SeqFuture`) -/
def addToGroups (e : Entry) : List (List Entry) → List (List Entry)
  | [] => [[e]]
  | g :: gs =>
    match g with
    | [] => [e] :: gs
    | x :: _ => if x.sameKey e then (e :: g) :: gs else [e] :: g :: gs   -- groups and members newest first

/-- the pull loop of `step_to_next_bounded` (lock held): collects every live entry due at `t`. -/
def pullAll (bound : Option Nat) (t : Nat) : Nat → St → List (List Entry) → St × List (List Entry)
  | 0, s, gs => (s, gs)
  | fuel + 1, s, gs =>
    let s := discardCancelled bound s
    match s.queue with
    | [] => (s, gs)
    | e :: _ =>
      if e.time = t then
        match pullHead s with
        | none => (s, gs)
        | some (e, s') => pullAll bound t fuel s' (addToGroups e gs)
      else (s, gs)

/-- one delivery: entry `e` processed by model `m` -/
def runFire (prog : Prog) (s : St) (e : Entry) (m : Nat) : St :=
  if e.recheck && s.isCancelled e then { s with log := .skip e.aid m :: s.log }
  else
    let s := { s with log := .fire e.aid m e.time s.now :: s.log }
    execH s (prog.handler e.aid m s.now)

/-- the deliveries of a step, executed in the order chosen by the schedule -/
def runSeq (prog : Prog) : List (Entry × Nat) → St → St
  | [], s => s
  | (e, m) :: r, s => runSeq prog r (runFire prog s e m)

/-- A schedule oracle: maps the spawned groups (spawn order, members in order) to the order in which the
individual deliveries are processed.  Any function is allowed in the safety theorems; the ordering
theorems (C07, C09) require it to be a linearization (`IsLin`). -/
abbrev Oracle := List (List Entry) → List (Entry × Nat)

/-- deliveries of a group, in program order -/
def groupFires (g : List Entry) : List (Entry × Nat) := g.flatMap fun e => e.targets.map fun m => (e, m)

/-- the order in which the tasks are spawned (what a FIFO single-threaded run would do) -/
def spawnOrder : Oracle := fun gs => gs.flatMap groupFires

/-- foreign scheduling requests, each atomic under the queue lock -/
def execExt (s : St) : List SchedReq → St
  | [] => s
  | r :: rs =>
    let (s', res) := sched s r
    execExt { s' with log := .ext r.aid (res == .ok) :: s'.log } rs

def doSync (prog : Prog) (t : Nat) (s : St) : St × Option Nat :=
  (execExt { s with syncCalls := s.syncCalls + 1, log := .sync t :: s.log } (prog.ext s.syncCalls),
   prog.clock s.syncCalls)

def writeTime (t : Nat) (s : St) : St := { s with now := t, log := .setTime t :: s.log }

/-- the part of `step_to_next_bounded` executed with the queue lock held.  `jump` = the caller is
`step_until` (fixed code: when nothing is due the time is moved to the bound before unlocking). -/
def lockedPhase (bound : Option Nat) (jump : Bool) (s : St) : St × Option (Nat × List (List Entry)) :=
  let s := discardCancelled bound s
  match s.queue with
  | [] => (match jump, bound with | true, some b => writeTime b s | _, _ => s, none)
  | e :: _ =>
    if !within e.time bound then (match jump, bound with | true, some b => writeTime b s | _, _ => s, none) else
    let s := writeTime e.time s
    let r := pullAll bound e.time s.queue.length s []
    (r.1, some (e.time, (r.2.map List.reverse).reverse))

/-- after the lock is released: synchronize, tolerance check, run to quiescence -/
def afterLock (prog : Prog) (ord : Oracle) (t : Nat) (groups : List (List Entry)) (s : St) : St × Res × Option Nat :=
  let r := doSync prog t s
  match r.2, r.1.tol with
  | some l, some tol =>
    if l > tol then ({ r.1 with terminated := true }, .outOfSync l, none)
    else (runSeq prog (ord groups) r.1, .ok, some t)
  | _, _ => (runSeq prog (ord groups) r.1, .ok, some t)

/-- `step_to_next_bounded` (fixed code: Terminated is returned before anything else happens) -/
def stepNext (prog : Prog) (ord : Oracle) (bound : Option Nat) (jump : Bool) (s : St) : St × Res × Option Nat :=
  if s.terminated then (s, .terminated, none) else
  match lockedPhase bound jump s with
  | (s, none) => (s, .ok, none)
  | (s, some (t, groups)) => afterLock prog ord t groups s

/-- `Simulation::step` -/
def step (prog : Prog) (ord : Oracle) (s : St) : St × Res :=
  let r := stepNext prog ord none false s
  (r.1, r.2.1)

/-- `step_until_unchecked` -/
def stepUntilLoop (prog : Prog) (ord : Oracle) (target : Nat) : Nat → St → St × Res
  | 0, s => (s, .diverged)
  | fuel + 1, s =>
    match stepNext prog ord (some target) true s with
    | (s, .ok, some t) => if t = target then (s, .ok) else stepUntilLoop prog ord target fuel s
    | (s, .ok, none) => ((doSync prog target s).1, .ok)
    | (s, r, _) => (s, r)

/-- `Simulation::step_until` with an absolute target -/
def stepUntil (prog : Prog) (ord : Oracle) (target : Nat) (s : St) : St × Res :=
  if s.terminated then (s, .terminated)
  else if target < s.now then (s, .invalidDeadline)
  else stepUntilLoop prog ord target (target - s.now + 1) s

/-- `Simulation::process_event(input, aid, model)`: the handler runs at the current time. -/
def processEvent (prog : Prog) (aid m : Nat) (s : St) : St × Res :=
  if s.terminated then (s, .terminated)
  else
    let s := { s with log := .fire aid m s.now s.now :: s.log }
    (execH s (prog.handler aid m s.now), .ok)

/-- the action id under which the init script of model `m` is registered -/
def initAid (m : Nat) : Nat := 9000000 + m

/-- the `Model::init` of models 0 .. k-1, each a handler run at the current (start) time -/
def runInits (prog : Prog) : Nat → St → St
  | 0, s => s
  | k + 1, s => let s := runInits prog k s; execH s (prog.handler (initAid k) k s.now)

/-- `SimInit::init(t0)`: time write, one synchronize, then the models' init (which may schedule and cancel). -/
def initSim (prog : Prog) (t0 : Nat) (tol : Option Nat) : St :=
  runInits prog prog.inits (doSync prog t0 (writeTime t0 (St.init t0 tol))).1

end NexoVerif.Sched

namespace NexoVerif.Sched

/-- Driver commands (the public API of `Simulation` / `Scheduler` that this model covers). -/
inductive Cmd
  | sched (r : SchedReq)          -- Scheduler::schedule* (any thread; atomic under the queue lock)
  | cancel (k : Nat)              -- ActionKey::cancel / AutoActionKey drop
  | step
  | stepUntil (target : Nat)
  | process (aid m : Nat)         -- process_event
deriving Repr

def exec (prog : Prog) (ord : Oracle) (s : St) : Cmd → St × Res
  | .sched r => sched s r
  | .cancel k => (cancelKey s k, .ok)
  | .step => step prog ord s
  | .stepUntil t => stepUntil prog ord t s
  | .process a m => processEvent prog a m s

/-- state after a command sequence -/
def run (prog : Prog) (ord : Oracle) (s : St) (cmds : List Cmd) : St :=
  cmds.foldl (fun s c => (exec prog ord s c).1) s

end NexoVerif.Sched
