/-!
M-DROP: what dropping an executor does with its tasks (`executor/mt_executor.rs`: end of `run_local_worker`,
`Executor::drop`, `CancellableFuture::drop`; `executor/st_executor.rs`: `ExecutorInner::drop`).

The model is at the level of ownership: a task has a future (alive or dropped), a cancel token in its executor's list
of active tasks, at most one `Runnable` sitting somewhere, and its future owns things whose destructors wake other
tasks (the receiving half of a mailbox wakes the blocked senders, the sending half of a reply channel wakes the
requester, ...).  Three switches record what the source does (they are extracted from the source on every run):
whether an exiting worker hands its fast slot / its local queue over to the injector, and whether the drop handler
cancels the tasks with `ACTIVE_TASKS` unset.
-/
namespace NexoVerif.DropM

structure Cfg where
  handFast : Bool
  handLocal : Bool
  unsetActive : Bool
deriving Repr, DecidableEq

inductive Loc
  | none                  -- no Runnable exists
  | injector
  | mainLocal             -- local queue of the worker installed by `Executor::drop`
  | fast (w : Nat)        -- fast (LIFO) slot of worker w
  | wlocal (w : Nat)      -- local queue of worker w
deriving Repr, DecidableEq, Inhabited

structure Task where
  fut : Bool := false          -- the future is alive (neither completed nor dropped)
  futDrops : Nat := 0
  token : Bool := false        -- its cancel token is in the list of active tasks of its executor
  closed : Bool := false
  loc : Loc := .none
  wakesOnDrop : List Nat := [] -- tasks woken by the destructors of what the future owns
  exec : Nat := 0              -- executor the task belongs to
  key : Nat := 0               -- its key in that executor's list of active tasks
deriving Repr, Inhabited

structure St where
  task : Nat → Task
  n : Nat                      -- tasks are 0 .. n-1
  panicked : Bool := false     -- "Tasks may not be awaken outside executor threads"

def upd (f : Nat → Task) (i : Nat) (v : Task) : Nat → Task := fun j => if j = i then v else f j

@[simp] theorem upd_same (f : Nat → Task) (i : Nat) (v : Task) : upd f i v i = v := by simp [upd]
@[simp] theorem upd_other (f : Nat → Task) {i j : Nat} (v : Task) (h : j ≠ i) : upd f i v j = f j := by simp [upd, h]

/-- a waker of task `u` is invoked; `inCtx` = the current thread has a local worker installed -/
def wake (inCtx : Bool) (s : St) (u : Nat) : St :=
  let t := s.task u
  if t.closed ∨ t.fut = false ∨ t.loc ≠ .none then s
  else if inCtx then { s with task := upd s.task u { t with loc := .mainLocal } }
  else { s with panicked := true }

/-- `CancellableFuture::drop` with `ACTIVE_TASKS` designating the list of executor `ctx` (`none`: not set): the token
stored under this future's key is removed from *that* list -/
def stealToken (ctx : Option Nat) (s : St) (t : Nat) : St :=
  match ctx with
  | none => s
  | some e =>
    { s with task := fun u =>
        let tu := s.task u
        if u < s.n ∧ tu.exec = e ∧ tu.key = (s.task t).key ∧ u ≠ t then { tu with token := false } else tu }

/-- the future of task `t` is dropped -/
def dropFuture (inCtx : Bool) (ctx : Option Nat) (s : St) (t : Nat) : St :=
  let tk := s.task t
  if tk.fut then
    let s1 := { s with task := upd s.task t { tk with fut := false, futDrops := tk.futDrops + 1 } }
    let s2 := stealToken ctx s1 t
    tk.wakesOnDrop.foldl (wake inCtx) s2
  else s

/-- a `Runnable` of task `t` is dropped without being run: the task is cancelled -/
def dropRunnable (inCtx : Bool) (ctx : Option Nat) (s : St) (t : Nat) : St :=
  let tk := s.task t
  let s1 := { s with task := upd s.task t { tk with loc := .none, closed := true } }
  dropFuture inCtx ctx s1 t

/-- end of `run_local_worker` for every worker: what it still holds goes to the injector, or is dropped with the
`Worker` at thread exit (no local worker installed any more) -/
def workerExit (cfg : Cfg) (s : St) (t : Nat) : St :=
  match (s.task t).loc with
  | .fast _ =>
    if cfg.handFast then { s with task := upd s.task t { s.task t with loc := .injector } }
    else dropRunnable false none s t
  | .wlocal _ =>
    if cfg.handLocal then { s with task := upd s.task t { s.task t with loc := .injector } }
    else dropRunnable false none s t
  | _ => s

/-- `CancelToken::cancel` for the token of task `t` (tokens are drained from the list) -/
def cancel (ctx : Option Nat) (s : St) (t : Nat) : St :=
  let tk := s.task t
  if tk.token then
    let s1 := { s with task := upd s.task t { tk with token := false, closed := true } }
    if tk.closed = false ∧ tk.loc = .none then dropFuture true ctx s1 t else s1
  else s

/-- the queues are dropped -/
def dropQueued (ctx : Option Nat) (s : St) (t : Nat) : St :=
  if (s.task t).loc ≠ .none then dropRunnable true ctx s t else s

def tasksOf (s : St) (e : Nat) : List Nat := (List.range s.n).filter (fun t => (s.task t).exec = e)

/-- `Executor::drop` of executor `e`, while `ACTIVE_TASKS` of the thread designates `outer` -/
def dropExecutor (cfg : Cfg) (e : Nat) (outer : Option Nat) (s : St) : St :=
  let ts := tasksOf s e
  let s0 := ts.foldl (workerExit cfg) s
  let ctx := if cfg.unsetActive then none else outer
  let s1 := ts.foldl (cancel ctx) s0
  ts.foldl (dropQueued ctx) s1

end NexoVerif.DropM
