/-
M-SINK — executable model of `ports/sink/event_buffer.rs` and `ports/sink/event_slot.rs`.

`EventBuffer<T>`  = { capacity, is_open : AtomicBool, buffer : Mutex<VecDeque<T>> }
  write(e): if !is_open return; if len == capacity { pop_front }; push_back(e)
  next()  : pop_front
  open()/close(): is_open := true/false
`EventSlot<T>`    = { is_open, slot : Mutex<Option<T>> }
  write(e): if !is_open return; *slot = Some(e)       (sequential: try_lock always succeeds)
  next()  : slot.take()

Events are `Nat` (the harness uses `u64` payloads).  No imports: this file is linked into the driver.
-/
namespace NexoVerif.Sink

/-- One sink operation of the line protocol. -/
inductive Op where
  | write (x : Nat)
  | next
  | opn
  | cls
  deriving Repr, DecidableEq

/-! ### EventBuffer -/

structure Buf where
  cap    : Nat
  isOpen : Bool
  items  : List Nat          -- oldest first
  deriving Repr, DecidableEq

def Buf.new (cap : Nat) (isOpen : Bool) : Buf := { cap := cap, isOpen := isOpen, items := [] }

/-- `EventBufferWriter::write`. -/
def Buf.write (b : Buf) (x : Nat) : Buf :=
  if !b.isOpen then b
  else if b.items.length == b.cap then { b with items := b.items.tail ++ [x] }
  else { b with items := b.items ++ [x] }

/-- `Iterator::next` (pop_front). -/
def Buf.next (b : Buf) : Buf × Option Nat :=
  match b.items with
  | []      => (b, none)
  | x :: r  => ({ b with items := r }, some x)

def Buf.step (b : Buf) : Op → Buf × Option Nat
  | .write x => (b.write x, none)
  | .next    => b.next
  | .opn     => ({ b with isOpen := true }, none)
  | .cls     => ({ b with isOpen := false }, none)

/-! ### EventSlot -/

structure Slot where
  isOpen : Bool
  v      : Option Nat
  deriving Repr, DecidableEq

def Slot.new (isOpen : Bool) : Slot := { isOpen := isOpen, v := none }

def Slot.write (s : Slot) (x : Nat) : Slot :=
  if !s.isOpen then s else { s with v := some x }

def Slot.next (s : Slot) : Slot × Option Nat := ({ s with v := none }, s.v)

def Slot.step (s : Slot) : Op → Slot × Option Nat
  | .write x => (s.write x, none)
  | .next    => s.next
  | .opn     => ({ s with isOpen := true }, none)
  | .cls     => ({ s with isOpen := false }, none)

/-! ### Ghost history used by the property statements: the list of *accepted* writes. -/

/-- Writes accepted (sink open at the time of the write) by a run of `ops` from open-flag `o`. -/
def accepted : Bool → List Op → List Nat
  | _, []              => []
  | o, .write x :: ops => if o then x :: accepted o ops else accepted o ops
  | _, .opn :: ops     => accepted true ops
  | _, .cls :: ops     => accepted false ops
  | o, .next :: ops    => accepted o ops

def Buf.run (b : Buf) (ops : List Op) : Buf := ops.foldl (fun b op => (b.step op).1) b
def Slot.run (s : Slot) (ops : List Op) : Slot := ops.foldl (fun s op => (s.step op).1) s

/-- Responses of a run (one per op). -/
def Buf.outs : Buf → List Op → List (Option Nat)
  | _, []        => []
  | b, op :: ops => (b.step op).2 :: Buf.outs (b.step op).1 ops

def Slot.outs : Slot → List Op → List (Option Nat)
  | _, []        => []
  | s, op :: ops => (s.step op).2 :: Slot.outs (s.step op).1 ops

end NexoVerif.Sink
