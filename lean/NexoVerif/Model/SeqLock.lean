import NexoVerif.Model.Atomics
/-
M-SEQLOCK — `util/sync_cell.rs` (`SyncCell<TearableAtomicTime>`) in a view-based release/acquire machine.

Locations `seq`, `d1` (seconds), `d2` (nanoseconds); each is the list of messages `(value, view)` written to it,
in modification order (one writer ⇒ program order).  A thread carries `cur` (what it must not read behind),
`acq` (views of messages read with relaxed loads, made binding by an acquire fence) and `rel` (the view published
by relaxed stores after a release fence).  Relaxed load of message i: allowed iff `cur ≤ i`; joins the message view
into `acq` (and into `cur` when the load is acquire).  Acquire fence: `cur := cur ⊔ acq`.  Release fence:
`rel := cur`.  Relaxed store: message view `rel ⊔ {self}`; release store: `cur ⊔ {self}`.
The writer and reader programs are those of `write` and `try_read`, with the orderings `Ords` taken from
`Extracted.lean`.  No imports beyond Atomics.
-/

namespace NexoVerif.SeqLock

open NexoVerif (Ord)

/-- orderings of the six synchronising operations (extracted from sync_cell.rs) -/
structure Ords where
  wLoad : Ord      -- write: load sequence
  wOdd : Ord       -- write: store sequence+1
  wFence : Ord     -- write: fence
  wEven : Ord      -- write: store sequence+2
  rFirst : Ord     -- try_read: first load of sequence
  rFence : Ord     -- try_read: fence
  rSecond : Ord    -- try_read: second load of sequence
deriving Repr, Inhabited

structure View where
  seq : Nat
  d1 : Nat
  d2 : Nat
deriving DecidableEq, Repr, Inhabited

def View.join (a b : View) : View := ⟨max a.seq b.seq, max a.d1 b.d1, max a.d2 b.d2⟩
def View.zero : View := ⟨0, 0, 0⟩

structure Msg where
  val : Nat
  view : View
deriving Repr, Inhabited

/-- writer program counter inside one `write` -/
inductive WPc | idle | loaded | oddStored | fenced | d1Stored | d2Stored
deriving DecidableEq, Repr, Inhabited

inductive RPc | start | seqLoaded | d1Loaded | d2Loaded | fenced | done
deriving DecidableEq, Repr, Inhabited

structure St where
  seqM : List Msg
  d1M : List Msg
  d2M : List Msg
  -- writer thread
  wpc : WPc
  ws : Nat                 -- loaded sequence value
  wa : Nat
  wb : Nat
  wcur : View
  wrel : View
  -- reader thread
  rpc : RPc
  rcur : View
  racq : View
  rv : Nat                 -- first sequence value
  ra : Nat
  rb : Nat
  result : Option (Option (Nat × Nat))   -- outcome of the last try_read
  -- ghost
  ja : Nat                 -- index of the d1 message read
  jb : Nat
  lastOk : Nat             -- write index returned by the last successful read
deriving Repr, Inhabited

def init (a b : Nat) : St :=
  { seqM := [⟨0, .zero⟩], d1M := [⟨a, .zero⟩], d2M := [⟨b, .zero⟩],
    wpc := .idle, ws := 0, wa := 0, wb := 0, wcur := .zero, wrel := .zero,
    rpc := .start, rcur := .zero, racq := .zero, rv := 0, ra := 0, rb := 0, result := none,
    ja := 0, jb := 0, lastOk := 0 }

inductive Label
  | wBegin (a b : Nat)     -- a call to write(a, b) starts: load the sequence
  | wStep                  -- next atomic operation of the running write
  | rLoadSeq1 (i : Nat)    -- reader: first load of sequence reads message i
  | rLoadD1 (j : Nat)
  | rLoadD2 (j : Nat)
  | rFence
  | rLoadSeq2 (i : Nat)
  | rRestart               -- start another try_read
deriving Repr, Inhabited

def storeView (o : Ord) (cur rel : View) (self : View) : View :=
  (if o.isRel then cur else rel).join self

def step (o : Ords) (l : Label) (s : St) : Option St :=
  match l with
  | .wBegin a b =>
    if s.wpc = .idle then
      -- the single writer reads its own last store (coherence)
      match s.seqM.getLast? with
      | some m => some { s with wpc := .loaded, ws := m.val, wa := a, wb := b }
      | none => none
    else none
  | .wStep =>
    match s.wpc with
    | .idle => none
    | .loaded =>
      let n := s.seqM.length
      let cur := { s.wcur with seq := n }
      some { s with seqM := s.seqM ++ [⟨s.ws + 1, storeView o.wOdd cur s.wrel ⟨n, 0, 0⟩⟩], wcur := cur, wpc := .oddStored }
    | .oddStored =>
      some { s with wrel := if o.wFence.isRel then s.wcur else s.wrel, wpc := .fenced }
    | .fenced =>
      let n := s.d1M.length
      let cur := { s.wcur with d1 := n }
      some { s with d1M := s.d1M ++ [⟨s.wa, s.wrel.join ⟨0, n, 0⟩⟩], wcur := cur, wpc := .d1Stored }
    | .d1Stored =>
      let n := s.d2M.length
      let cur := { s.wcur with d2 := n }
      some { s with d2M := s.d2M ++ [⟨s.wb, s.wrel.join ⟨0, 0, n⟩⟩], wcur := cur, wpc := .d2Stored }
    | .d2Stored =>
      let n := s.seqM.length
      let cur := { s.wcur with seq := n }
      some { s with seqM := s.seqM ++ [⟨s.ws + 2, storeView o.wEven cur s.wrel ⟨n, 0, 0⟩⟩], wcur := cur, wpc := .idle }
  | .rLoadSeq1 i =>
    if s.rpc = .start ∧ s.rcur.seq ≤ i then
      match s.seqM[i]? with
      | some m =>
        let cur := { s.rcur with seq := i }
        let s' := { s with rv := m.val, racq := s.racq.join m.view,
                           rcur := if o.rFirst.isAcq then cur.join m.view else cur }
        if m.val % 2 = 1 then some { s' with rpc := .done, result := some none }
        else some { s' with rpc := .seqLoaded }
      | none => none
    else none
  | .rLoadD1 j =>
    if s.rpc = .seqLoaded ∧ s.rcur.d1 ≤ j then
      match s.d1M[j]? with
      | some m => some { s with ra := m.val, ja := j, racq := s.racq.join m.view, rcur := { s.rcur with d1 := j }, rpc := .d1Loaded }
      | none => none
    else none
  | .rLoadD2 j =>
    if s.rpc = .d1Loaded ∧ s.rcur.d2 ≤ j then
      match s.d2M[j]? with
      | some m => some { s with rb := m.val, jb := j, racq := s.racq.join m.view, rcur := { s.rcur with d2 := j }, rpc := .d2Loaded }
      | none => none
    else none
  | .rFence =>
    if s.rpc = .d2Loaded then
      some { s with rcur := if o.rFence.isAcq then s.rcur.join s.racq else s.rcur, rpc := .fenced }
    else none
  | .rLoadSeq2 i =>
    if s.rpc = .fenced ∧ s.rcur.seq ≤ i then
      match s.seqM[i]? with
      | some m =>
        let s' := { s with racq := s.racq.join m.view, rcur := { s.rcur with seq := i }, rpc := .done }
        if m.val = s.rv then some { s' with result := some (some (s.ra, s.rb)), lastOk := s.ja }
        else some { s' with result := some none }
      | none => none
    else none
  | .rRestart => if s.rpc = .done then some { s with rpc := .start } else none

inductive Reach (o : Ords) (a0 b0 : Nat) : St → Prop
  | init : Reach o a0 b0 (init a0 b0)
  | step {s s' : St} (l : Label) : Reach o a0 b0 s → step o l s = some s' → Reach o a0 b0 s'

end NexoVerif.SeqLock
