/-
M-PQ — executable models of `util/priority_queue.rs` and `util/indexed_priority_queue.rs`.

`PriorityQueue<K,V>`: `BinaryHeap<Item>` + `next_epoch`; `Item::cmp` = (key, epoch) lexicographic, **reversed**
(so the max-heap pops the smallest (key, epoch)).  `BinaryHeap` is trusted to pop *a greatest* element;
the model keeps the heap content as a list in insertion order and `popMax` extracts a greatest element
w.r.t. the transliterated `Item.cmp`.

`IndexedPriorityQueue<K,V>` (mid-level model): the slab with its free list and the `(slab_idx, epoch)`
insert keys are modelled exactly (slot reuse, epoch check in `extract`); the binary heap stored in
`heap : Vec<Item>` and maintained by `sift_up`/`sift_down` is abstracted to "the used node with the least
(key, epoch)".  The raw parts of every `InsertKey` are compared with the real code by the `pq` engine, so
the slab/free-list discipline is tied bit for bit.

Keys and values are `Nat`.  No imports.
-/
namespace NexoVerif.PQ

structure Item where
  key   : Nat
  epoch : Nat
  val   : Nat
  deriving Repr, DecidableEq

/-- Lexicographic `(key, epoch) ≤`. -/
def Item.lexLe (a b : Item) : Bool := a.key < b.key || (a.key == b.key && a.epoch ≤ b.epoch)

/-- Transliteration of `Item::cmp`: `key.cmp(other.key).then_with(|| epoch.cmp(other.epoch)).reverse()`. -/
def Item.cmp (a b : Item) : Ordering :=
  ((compare a.key b.key).then (compare a.epoch b.epoch)).swap

/-- `a` is at least as great as `b` in the heap's order. -/
def Item.geHeap (a b : Item) : Bool := a.cmp b != .lt

/-! ### PriorityQueue -/

structure PQ where
  heap      : List Item      -- content of the BinaryHeap, in insertion order
  nextEpoch : Nat
  deriving Repr

def PQ.new : PQ := { heap := [], nextEpoch := 0 }

def PQ.insert (q : PQ) (k v : Nat) : PQ :=
  { heap := q.heap ++ [{ key := k, epoch := q.nextEpoch, val := v }], nextEpoch := q.nextEpoch + 1 }

/-- A greatest element of a list w.r.t. the heap order (first one found). -/
def maxItem : List Item → Option Item
  | []      => none
  | a :: l  => match maxItem l with
    | none   => some a
    | some m => if a.geHeap m then some a else some m

/-- `BinaryHeap::pop`. -/
def PQ.pull (q : PQ) : PQ × Option (Nat × Nat) :=
  match maxItem q.heap with
  | none   => (q, none)
  | some m => ({ q with heap := q.heap.erase m }, some (m.key, m.val))

/-- `BinaryHeap::peek`. -/
def PQ.peek (q : PQ) : Option (Nat × Nat) := (maxItem q.heap).map fun m => (m.key, m.val)

/-! ### The specification both queues are compared with: a list kept sorted by key with *stable*
insertion (a new entry goes after every entry with a key ≤ its own); pull = head. -/

def insStable (l : List Item) (x : Item) : List Item :=
  match l with
  | []      => [x]
  | a :: r  => if a.key ≤ x.key then a :: insStable r x else x :: a :: r

/-- Abstraction: replay the insertions (in insertion order) into the stable sorted list. -/
def sortedOf (l : List Item) : List Item := l.foldl insStable []

/-! ### IndexedPriorityQueue (mid-level) -/

inductive Node where
  | free (next : Option Nat)
  | used (it : Item)
  deriving Repr, DecidableEq

structure IPQ where
  slab      : List Node
  firstFree : Option Nat
  nextEpoch : Nat
  err       : Bool := false          -- a Rust `panic!`/out-of-bounds would have happened
  deriving Repr

def IPQ.new : IPQ := { slab := [], firstFree := none, nextEpoch := 0 }

def usedItems : List Node → List Item
  | []              => []
  | .free _ :: r    => usedItems r
  | .used it :: r   => it :: usedItems r

def IPQ.len (q : IPQ) : Nat := (usedItems q.slab).length

/-- `insert`: returns the new queue and the raw parts `(slab_idx, epoch)` of the `InsertKey`. -/
def IPQ.insert (q : IPQ) (k v : Nat) : IPQ × (Nat × Nat) :=
  let e := q.nextEpoch
  let it : Item := { key := k, epoch := e, val := v }
  match q.firstFree with
  | some idx =>
    match q.slab[idx]? with
    | some (.free nx) =>
      ({ q with slab := q.slab.set idx (.used it), firstFree := nx, nextEpoch := e + 1 }, (idx, e))
    | _ => ({ q with err := true }, (idx, e))       -- `unwrap_next_free_node` panics / index out of bounds
  | none =>
    ({ q with slab := q.slab ++ [.used it], nextEpoch := e + 1 }, (q.slab.length, e))

/-- Index (in the slab) and item of the used node with the least `(key, epoch)`. -/
def minUsed : List Node → Nat → Option (Nat × Item)
  | [], _            => none
  | .free _ :: r, i  => minUsed r (i + 1)
  | .used it :: r, i =>
    match minUsed r (i + 1) with
    | none          => some (i, it)
    | some (j, m)   => if it.lexLe m then some (i, it) else some (j, m)

def IPQ.peek (q : IPQ) : Option (Nat × Nat) := (minUsed q.slab 0).map fun (_, m) => (m.key, m.val)
def IPQ.peekKey (q : IPQ) : Option Nat := (minUsed q.slab 0).map fun (_, m) => m.key

def IPQ.pull (q : IPQ) : IPQ × Option (Nat × Nat) :=
  match minUsed q.slab 0 with
  | none        => (q, none)
  | some (i, m) =>
    ({ q with slab := q.slab.set i (.free q.firstFree), firstFree := some i }, some (m.key, m.val))

/-- `extract(InsertKey { slab_idx, epoch })`. -/
def IPQ.extract (q : IPQ) (idx e : Nat) : IPQ × Option (Nat × Nat) :=
  match q.slab[idx]? with
  | some (.used it) =>
    if it.epoch != e then (q, none)
    else ({ q with slab := q.slab.set idx (.free q.firstFree), firstFree := some idx }, some (it.key, it.val))
  | _ => (q, none)

end NexoVerif.PQ

namespace NexoVerif.PQ

/-- State-changing operations of the indexed queue (for statements over arbitrary histories). -/
inductive IOp where
  | ins (k v : Nat)
  | pull
  | ext (i e : Nat)
  deriving Repr, DecidableEq

def IPQ.stepOp (q : IPQ) : IOp → IPQ
  | .ins k v => (q.insert k v).1
  | .pull    => q.pull.1
  | .ext i e => (q.extract i e).1

def IPQ.runOps (q : IPQ) (ops : List IOp) : IPQ := ops.foldl IPQ.stepOp q

end NexoVerif.PQ
