/-!
M-INJ: `executor/mt_executor/injector.rs` — the injector queue of the multi-threaded executor: a mutex-protected vector
of buckets of at most `cap` tasks and an advisory emptiness flag.  Every operation runs under the mutex, so an operation
is one step; `is_empty` and the fast path of `pop_bucket` read the flag without the lock, which is why the flag has to
agree with the vector whenever nobody is inside an operation.
-/
namespace NexoVerif.Inj

structure St where
  cap : Nat                       -- `BUCKET_CAPACITY` (≥ 1, asserted by `Injector::new`)
  inner : List (List Nat) := []   -- the vector of buckets; `inner.first_mut()` is the head, `push`/`pop` work at the end
  flag : Bool := true             -- `is_empty`

/-- `insert_task` -/
def insertTask (s : St) (t : Nat) : St :=
  match s.inner with
  | first :: rest =>
    if first.length < s.cap then { s with inner := (first ++ [t]) :: rest }
    else { s with inner := [t] :: rest ++ [first] }     -- the full bucket is swapped for a new one and pushed at the end
  | [] => { s with inner := [[t]], flag := false }

/-- `push_bucket` -/
def pushBucket (s : St) (b : List Nat) : St :=
  let wasEmpty := s.inner.isEmpty
  { s with inner := s.inner ++ [b], flag := if wasEmpty then false else s.flag }

/-- `pop_bucket` -/
def popBucket (s : St) : St × Option (List Nat) :=
  if s.flag then (s, none)
  else
    match s.inner.getLast? with
    | none => ({ s with flag := true }, none)
    | some b =>
      let inner' := s.inner.dropLast
      ({ s with inner := inner', flag := if inner'.isEmpty then true else s.flag }, some b)

inductive Op
  | insert (t : Nat)
  | push (b : List Nat)
  | pop
deriving Repr

def step (s : St) : Op → St
  | .insert t => insertTask s t
  | .push b => pushBucket s b
  | .pop => (popBucket s).1

def run (s : St) (ops : List Op) : St := ops.foldl step s

/-- what an operation hands out -/
def out (s : St) : Op → List Nat
  | .pop => ((popBucket s).2).getD []
  | _ => []

/-- what an operation puts in -/
def inp : Op → List Nat
  | .insert t => [t]
  | .push b => b
  | .pop => []

/-- all tasks handed out by a sequence of operations, in order -/
def outs : St → List Op → List Nat
  | _, [] => []
  | s, o :: os => out s o ++ outs (step s o) os

def inps (ops : List Op) : List Nat := ops.flatMap inp

def held (s : St) : List Nat := s.inner.flatten

end NexoVerif.Inj
