/-
M-NAMES — how a bench of (possibly nested) models gets its model identifiers, its table of names and its list of mailbox
observers: `SimInit::add_model`, `simulation::add_model` and `BuildContext::add_submodel`.

`add_model(model, mailbox, name)`: push `(name, observer)` on `observers`; run `model.build(cx)`, which may call
`cx.add_submodel(sub, mailbox, sub_name)` any number of times — each of them is `add_model(sub, mailbox, name + "." +
sub_name)`, recursively —; then take `model_id = model_names.len()`, push `name` on `model_names`, and spawn the model's
future with that identifier.  An error report looks the name up with `model_names[model_id]`; a deadlock report lists the
`(name, observer)` pairs of `observers`.  An empty name is replaced by "<unknown>".  No imports.
-/
namespace NexoVerif.Names

/-- a prototype model: the name it is added under, and the sub-models its `build` adds, in order -/
inductive Proto where
  | node (name : String) (subs : List Proto)

/-- the bench under construction -/
structure Reg where
  names     : List String := []          -- `model_names`
  observers : List String := []          -- the names stored with the observers, in order
  spawned   : List (String × Nat) := [] -- (qualified name, model identifier) of every model future, in spawn order
  deriving Repr

def orUnknown (n : String) : String := if n.isEmpty then "<unknown>" else n

mutual
/-- `simulation::add_model` for a model known under the qualified name `qual`.  `idEarly`: the counter-model that takes the
identifier before `build` runs. -/
def addModel (idEarly : Bool) (r : Reg) (qual : String) : Proto → Reg
  | .node _ subs =>
    let r1 := { r with observers := r.observers ++ [qual] }
    let r2 := addSubs idEarly r1 qual subs
    let id := if idEarly then r1.names.length else r2.names.length
    { r2 with names := r2.names ++ [qual], spawned := r2.spawned ++ [(qual, id)] }
/-- the `add_submodel` calls of one `build`, in order -/
def addSubs (idEarly : Bool) (r : Reg) (parent : String) : List Proto → Reg
  | [] => r
  | .node n subs :: rest =>
    addSubs idEarly (addModel idEarly r (parent ++ "." ++ orUnknown n) (.node n subs)) parent rest
end

/-- `SimInit::add_model` for every top-level model, in order -/
def addTop (idEarly : Bool) (r : Reg) : List Proto → Reg
  | [] => r
  | .node n subs :: rest => addTop idEarly (addModel idEarly r (orUnknown n) (.node n subs)) rest

-- number of models in a hierarchy
mutual
def Proto.size : Proto → Nat
  | .node _ subs => 1 + sizeList subs
def sizeList : List Proto → Nat
  | [] => 0
  | p :: rest => p.size + sizeList rest
end

end NexoVerif.Names
