/-
M-QUEUE — the mailbox queue `channel/queue.rs` (bounded MPSC ring buffer with per-slot stamps).

L0: position arithmetic.  `closed_channel_mask = capacity.next_power_of_two() =: C`, `right_mask = 2C − 1`,
`M := right_mask + 1 = 2C`.  A position is `sequence·M + index` with `index < capacity`; bit `C` of
`enqueue_pos` is the closed flag.  The bit operations of the source are written arithmetically
(`x & right_mask = x % M`, `x & C ≠ 0 ⇔ (x / C) % 2 = 1`, `x | C = x + C` when the bit is clear,
`x & !right_mask = (x / M)·M`); the `queue` engine compares the raw words (`enqueue_pos`, `dequeue_pos`, all
stamps) with the real queue after every operation, which ties this reading bit for bit.

L1: the sequential queue (one operation at a time), following `push` / `pop` / `MessageBorrow::drop` /
`close` / `is_closed` / `len` branch by branch.  Messages are `Nat`.  No imports.
-/
namespace NexoVerif.Queue

/-- `usize::next_power_of_two` (for n ≥ 1) -/
def nextPow2 (n : Nat) : Nat := go n 1 n
where
  go (n p : Nat) : Nat → Nat
    | 0 => p
    | fuel + 1 => if n ≤ p then p else go n (2 * p) fuel

structure Q where
  cap : Nat
  enq : Nat                      -- enqueue_pos (with the closed flag)
  deq : Nat                      -- dequeue_pos
  stamps : List Nat
  slots : List (Option Nat)      -- MessageBox::Populated(v) / otherwise
  borrowed : Option (Nat × Nat)  -- outstanding MessageBorrow: (index, stamp to store on drop)
deriving Repr, DecidableEq

def Q.C (q : Q) : Nat := nextPow2 q.cap
def Q.M (q : Q) : Nat := 2 * q.C

def Q.new (cap : Nat) : Q :=
  { cap := cap, enq := 0, deq := 0, stamps := List.range cap, slots := List.replicate cap none, borrowed := none }

def Q.isClosedPos (q : Q) (p : Nat) : Bool := (p / q.C) % 2 == 1

/-- `next_queue_pos` -/
def Q.nextPos (q : Q) (p : Nat) : Nat :=
  if (p + 1) % q.M < q.cap then p + 1 else (p / q.M) * q.M + q.M

inductive PushRes | ok | full | closed | spin
deriving Repr, DecidableEq
inductive PopRes | some (v : Nat) | empty | closed | busy
deriving Repr, DecidableEq

/-- `push` (sequential: the CAS succeeds; the `Greater` branch would reload and retry forever: `spin`) -/
def Q.push (q : Q) (v : Nat) : Q × PushRes :=
  let pos := q.enq
  if q.isClosedPos pos then (q, .closed) else
  let idx := pos % q.M
  let stamp := q.stamps.getD idx 0
  if stamp = pos then
    ({ q with enq := q.nextPos pos, slots := q.slots.set idx (some v), stamps := q.stamps.set idx (stamp + 1) }, .ok)
  else if stamp < pos then (q, .full)
  else (q, .spin)

/-- `pop` (the returned borrow is kept in `borrowed` until released) -/
def Q.pop (q : Q) : Q × PopRes :=
  if q.borrowed.isSome then (q, .busy) else
  let d := q.deq
  let idx := d % q.M
  let stamp := q.stamps.getD idx 0
  if d ≠ stamp then
    match q.slots.getD idx none with
    | some v =>
      ({ q with deq := q.nextPos d, slots := q.slots.set idx none, borrowed := some (idx, stamp + (q.M - 1)) }, .some v)
    | none => (q, .empty)     -- unreachable!() in the source
  else if q.enq = d + q.C then (q, .closed)
  else (q, .empty)

/-- `MessageBorrow::drop` -/
def Q.release (q : Q) : Q :=
  match q.borrowed with
  | some (idx, st) => { q with stamps := q.stamps.set idx st, borrowed := none }
  | none => q

/-- `close`: `fetch_or(closed_channel_mask)` -/
def Q.close (q : Q) : Q := if q.isClosedPos q.enq then q else { q with enq := q.enq + q.C }

def Q.isClosed (q : Q) : Bool := q.isClosedPos q.enq

/-- `len` -/
def Q.len (q : Q) : Nat :=
  let ei := q.enq % q.C
  let di := q.deq % q.C
  let carry := if q.enq / q.M ≠ q.deq / q.M then 1 else 0
  (ei + carry * q.cap) - di

/-! ### the specification: a bounded FIFO with one outstanding borrow -/

structure Spec where
  cap : Nat
  items : List Nat       -- oldest first
  borrowed : Bool        -- a popped message whose slot is not yet released
  closed : Bool
deriving Repr, DecidableEq

def Spec.new (cap : Nat) : Spec := { cap := cap, items := [], borrowed := false, closed := false }

def Spec.push (s : Spec) (v : Nat) : Spec × PushRes :=
  if s.closed then (s, .closed)
  else if s.items.length + s.borrowed.toNat < s.cap then ({ s with items := s.items ++ [v] }, .ok)
  else (s, .full)

def Spec.pop (s : Spec) : Spec × PopRes :=
  if s.borrowed then (s, .busy) else
  match s.items with
  | v :: r => ({ s with items := r, borrowed := true }, .some v)
  | [] => (s, if s.closed then .closed else .empty)

def Spec.release (s : Spec) : Spec := { s with borrowed := false }
def Spec.close (s : Spec) : Spec := { s with closed := true }

/-- operations of the line protocol -/
inductive Op | push (v : Nat) | pop | release | close
deriving Repr, DecidableEq

def Q.step (q : Q) : Op → Q
  | .push v => (q.push v).1 | .pop => q.pop.1 | .release => q.release | .close => q.close
def Spec.step (s : Spec) : Op → Spec
  | .push v => (s.push v).1 | .pop => s.pop.1 | .release => s.release | .close => s.close

end NexoVerif.Queue
