import NexoVerif.Model.Task
/-!
Handle-level operations of M-TASK: each public operation of `Runnable`/`Waker`/`CancelToken`/`Promise` as the
sequence of atomic steps it performs when run without interference (used by the correspondence check, which
drives the real handles sequentially).  The future is a script: per poll, a list of actions performed inside
`poll` and whether it returns `Ready`.  No imports beyond the model.
-/
namespace NexoVerif.TaskM

inductive PAct
  | cloneCx        -- cx.waker().clone(), kept by the harness
  | wakeCx         -- cx.waker().wake_by_ref()
  | wakeStored     -- a previously cloned waker: wake_by_ref
  | wakeValStored  -- a previously cloned waker: wake() (consumes it)
  | dropStored     -- drop a previously cloned waker
  | cancelTok      -- CancelToken::cancel() (the future owns a handle to its own token)
deriving DecidableEq, Repr, Inhabited

/-- apply a labelled step that the sequential driver knows to be enabled; a disabled step marks the run as bad -/
def applyL (l : Label) (s : S) : S :=
  match step l s with
  | some s' => s'
  | none => { s with bad := true }

/-- what the destructors of the future and of the output do (they may use wakers they kept) -/
structure Hooks where
  fdrop : List PAct := []
  odrop : List PAct := []
deriving Repr, Inhabited

def applyAct (s : S) : PAct → S
  | .cloneCx => applyL .wClone s
  | .wakeCx => applyL .wWakeRef s
  | .wakeStored => if s.wakers == 0 then s else applyL .wWakeRef s
  | .wakeValStored => if s.wakers == 0 then s else applyL .wWakeVal s
  | .dropStored => if s.wakers == 0 then s else applyL .wDrop s
  | .cancelTok =>
    if s.token != .idle then s else
    let s := applyL .tCancel s
    if s.token == .dropFut then applyL .tDecRef (applyL .tDropFut s) else s

/-- a step that drops the future, followed by what the future's destructor does -/
def dropFut (hk : Hooks) (l : Label) (s : S) : S := hk.fdrop.foldl applyAct (applyL l s)
/-- a step that drops the output, followed by what the output's destructor does -/
def dropOut (hk : Hooks) (l : Label) (s : S) : S := hk.odrop.foldl applyAct (applyL l s)

/-- finalisation (drop of the future/output, deallocation) by whoever released the last reference -/
def settle (hk : Hooks) (s : S) : S :=
  let f := fun (s : S) =>
    if s.fin != .none && s.live then
      (match s.fin with
       | .dropFutThenFree => dropFut hk .finStep s
       | .dropOutThenFree => dropOut hk .finStep s
       | _ => applyL .finStep s)
    else s
  f (f (f s))

abbrev Script := List (List PAct × Bool)

/-- the poll loop of `Runnable::run` (precondition: `run = loaded`); returns the state and the next poll index -/
def doPolls (hk : Hooks) (script : Script) : Nat → Nat → S → S × Nat
  | 0, k, s => ({ s with bad := true }, k)
  | fuel + 1, k, s =>
    let s := applyL .rPollBegin s
    let (acts, ready) := script.getD k ([], false)
    let s := acts.foldl applyAct s
    if ready then
      let s := applyL .rReadyB (dropFut hk .rReadyA (applyL .rPollReady s))
      if s.run == .readyC then (settle hk (applyL .rReadyD (dropOut hk .rReadyC s)), k + 1) else (s, k + 1)
    else
      let s := applyL .rPend (applyL .rPollPending s)
      match s.run with
      | .loaded => doPolls hk script fuel (k + 1) s
      | .cancelA => (settle hk (applyL .rCancelB (dropFut hk .rCancelA s)), k + 1)
      | _ => (settle hk s, k + 1)

/-- `Runnable::run()` -/
def opRun (hk : Hooks) (script : Script) (k : Nat) (s : S) : S × Nat :=
  let s := applyL .rStart s
  match s.run with
  | .cancelA => (settle hk (applyL .rCancelB (dropFut hk .rCancelA s)), k)
  | .loaded => doPolls hk script (script.length + 64) k s
  | _ => ({ s with bad := true }, k)

/-- dropping a scheduled `Runnable` -/
def opDropRunnable (hk : Hooks) (s : S) : S :=
  settle hk (applyL .rCancelB (dropFut hk .rCancelA (applyL .rDropQueued s)))

/-- `CancelToken::cancel()` -/
def opCancel (hk : Hooks) (s : S) : S :=
  let s := applyL .tCancel s
  if s.token == .dropFut then settle hk (applyL .tDecRef (dropFut hk .tDropFut s)) else settle hk s

def opDropToken (hk : Hooks) (s : S) : S := settle hk (applyL .tDrop s)

/-- `Promise::poll()`: 0 = pending, 1 = ready (output taken and released by the caller), 2 = cancelled -/
def opPromisePoll (hk : Hooks) (s : S) : S × Nat :=
  let wasClosed := s.closed
  let s := applyL .pPoll s
  if s.promise == .taking then (dropOut hk .pTake s, 1)
  else if wasClosed then (s, 2)     -- `Wind-down` or `Closed` phase
  else (s, 0)

def opDropPromise (hk : Hooks) (s : S) : S := settle hk (applyL .pDrop s)
def opWakeRef (s : S) : S := applyL .wWakeRef s
def opWakeVal (hk : Hooks) (s : S) : S := settle hk (applyL .wWakeVal s)
def opClone (s : S) : S := applyL .wClone s
def opDropWaker (hk : Hooks) (s : S) : S := settle hk (applyL .wDrop s)

end NexoVerif.TaskM
