/-!
M-CHAN: the wake-up protocol of a mailbox (`channel.rs`: `Sender::send`, `Receiver::recv`) on top of the queue, for any
number of senders and the one receiver, at the granularity of the lock-protected operations of `async_event::Event`
(wait set: insert / remove / cancel / notify) and of `DiatomicWaker` (register / unregister / notify), every
interleaving, sequentially consistent.  The queue is abstracted to two counters (`occ`: slots occupied, from a push to
the release of the popped message; `msgs`: messages that can be popped), which is what M-QUEUE-C proves about it
(Full exactly when full, Empty exactly when empty).  `Event` and `DiatomicWaker` are external crates: their protocol
is modelled from their source (async-event 0.2.1 `WaitUntil::poll`, `WaitSet::{insert, remove, cancel, notify}`;
diatomic-waker 0.2.3 `WaitUntil::poll`, `notify`), not verified.  A pending send may be cancelled at any time (`sDrop`: the future is dropped, its notifier cancelled).  The mailbox may be closed by its owner while the receiver is not receiving (`Receiver::drop`: close the
queue, then `notify_all`); sends then fail.
-/
namespace NexoVerif.Chan

inductive SPc
  | idle
  | rm          -- `WaitUntil::poll`: about to remove its notifier from the wait set if it is there
  | try1        -- about to evaluate the predicate (`queue.push`), fast path
  | ins         -- predicate failed: about to insert the notifier in the wait set
  | try2        -- inserted: about to evaluate the predicate again
  | cancel      -- predicate succeeded at the second attempt: about to `cancel` the notifier
  | cancelErr   -- the queue was found closed at the second attempt: about to `cancel` the notifier, then fail
  | pending     -- returned `Pending`
  | notifyRecv  -- pushed: about to `receiver_signal.notify()`
deriving Repr, DecidableEq, Inhabited

inductive RPc
  | handler     -- not receiving (running a handler, or not started)
  | try1        -- `DiatomicWaker::wait_until`: about to evaluate the predicate (`queue.pop`)
  | reg         -- predicate failed: about to register the waker
  | try2        -- registered: about to evaluate the predicate again
  | unreg       -- predicate succeeded at the second attempt: about to unregister
  | pending     -- returned `Pending`
  | release     -- popped: the message's future has been created; about to drop the message (frees the slot)
  | notify      -- about to `sender_signal.notify_one()`
deriving Repr, DecidableEq, Inhabited

structure St where
  n : Nat                                   -- senders 0 .. n-1
  cap : Nat
  occ : Nat := 0                            -- occupied slots
  msgs : Nat := 0                           -- messages that can be popped
  spc : Nat → SPc := fun _ => .idle
  inset : Nat → Bool := fun _ => false      -- the sender's notifier is in the wait set
  rpc : RPc := .handler
  rreg : Bool := false                      -- the receiver's waker is registered
  pushed : Nat := 0                         -- ghost: completed pushes
  popped : Nat := 0                         -- ghost: completed pops
  /-- the receiver notifies a sender after every pop (read from the source); `false`: only when the pop left the
  full state -/
  always : Bool := true
  closed : Bool := false                    -- the queue is closed (`Receiver::drop` / `close`)
  cpc : Bool := false                       -- the closing thread has closed the queue and is about to `notify_all`

def upd {α} (f : Nat → α) (i : Nat) (v : α) : Nat → α := fun j => if j = i then v else f j
@[simp] theorem upd_same {α} (f : Nat → α) (i : Nat) (v : α) : upd f i v i = v := by simp [upd]
@[simp] theorem upd_other {α} (f : Nat → α) {i j : Nat} (v : α) (h : j ≠ i) : upd f i v j = f j := by simp [upd, h]

def St.init (n cap : Nat) (always : Bool := true) : St := { n := n, cap := cap, always := always }

inductive Label
  | sBegin (i : Nat)            -- `send` is polled for the first time
  | sRepoll (i : Nat)           -- the sender's task is polled again (it was woken, or spuriously)
  | sRemove (i : Nat)
  | sTry1 (i : Nat)
  | sInsert (i : Nat)
  | sTry2 (i : Nat)
  | sCancel (i : Nat) (k : Nat) -- `k`: the notifier popped from the wait set if this one had been notified meanwhile
  | sNotify (i : Nat)
  | sTry1Closed (i : Nat)       -- the first attempt finds the queue closed: the send fails
  | sTry2Closed (i : Nat)       -- the second attempt finds the queue closed
  | sCancelErr (i : Nat) (k : Nat)
  | closeQ                      -- `Receiver::drop`: the queue is closed (the receiver is not receiving)
  | closeNotify                 -- … then `sender_signal.notify_all()`
  | sDrop (i : Nat) (k : Nat)   -- a pending send is cancelled (its future is dropped): `WaitUntil::drop` cancels the notifier
  | rBegin
  | rRepoll
  | rTry1
  | rReg
  | rTry2
  | rUnreg
  | rRelease
  | rNotify (k : Nat)           -- `k`: the notifier popped from the wait set, if any
deriving Repr

/-- no notifier is in the wait set -/
def setEmpty (s : St) : Prop := ∀ k, k < s.n → s.inset k = false
instance (s : St) : Decidable (setEmpty s) := by unfold setEmpty; exact Nat.decidableBallLT _ _

def step (l : Label) (s : St) : Option St :=
  match l with
  | .sBegin i => if i < s.n ∧ s.spc i = .idle then some { s with spc := upd s.spc i .try1 } else none
  | .sRepoll i => if i < s.n ∧ s.spc i = .pending then some { s with spc := upd s.spc i .rm } else none
  | .sRemove i =>
    if i < s.n ∧ s.spc i = .rm then some { s with inset := upd s.inset i false, spc := upd s.spc i .try1 } else none
  | .sTry1 i =>
    if i < s.n ∧ s.spc i = .try1 ∧ s.closed = false then
      if s.occ < s.cap then
        some { s with occ := s.occ + 1, msgs := s.msgs + 1, pushed := s.pushed + 1, spc := upd s.spc i .notifyRecv }
      else some { s with spc := upd s.spc i .ins }
    else none
  | .sInsert i =>
    if i < s.n ∧ s.spc i = .ins then some { s with inset := upd s.inset i true, spc := upd s.spc i .try2 } else none
  | .sTry2 i =>
    if i < s.n ∧ s.spc i = .try2 ∧ s.closed = false then
      if s.occ < s.cap then
        some { s with occ := s.occ + 1, msgs := s.msgs + 1, pushed := s.pushed + 1, spc := upd s.spc i .cancel }
      else some { s with spc := upd s.spc i .pending }
    else none
  | .sCancel i k =>
    if i < s.n ∧ s.spc i = .cancel then
      if s.inset i = true then
        some { s with inset := upd s.inset i false, spc := upd s.spc i .notifyRecv }
      else if setEmpty s then some { s with spc := upd s.spc i .notifyRecv }
      else if k < s.n ∧ s.inset k = true then
        -- it had been notified: the notification is passed on
        some { s with inset := upd s.inset k false, spc := upd s.spc i .notifyRecv }
      else none
    else none
  | .sTry1Closed i =>
    if i < s.n ∧ s.spc i = .try1 ∧ s.closed = true then some { s with spc := upd s.spc i .idle } else none
  | .sTry2Closed i =>
    if i < s.n ∧ s.spc i = .try2 ∧ s.closed = true then some { s with spc := upd s.spc i .cancelErr } else none
  | .sCancelErr i k =>
    if i < s.n ∧ s.spc i = .cancelErr then
      if s.inset i = true then some { s with inset := upd s.inset i false, spc := upd s.spc i .idle }
      else if setEmpty s then some { s with spc := upd s.spc i .idle }
      else if k < s.n ∧ s.inset k = true then
        some { s with inset := upd s.inset k false, spc := upd s.spc i .idle }
      else none
    else none
  | .closeQ =>
    if s.closed = false ∧ s.rpc = .handler then some { s with closed := true, cpc := true } else none
  | .closeNotify =>
    if s.cpc = true then some { s with inset := fun _ => false, cpc := false } else none
  | .sDrop i k =>
    if i < s.n ∧ s.spc i = .pending then
      if s.inset i = true then some { s with inset := upd s.inset i false, spc := upd s.spc i .idle }
      else if setEmpty s then some { s with spc := upd s.spc i .idle }
      else if k < s.n ∧ s.inset k = true then
        -- it had been notified: the notification is passed on to another waiting sender
        some { s with inset := upd s.inset k false, spc := upd s.spc i .idle }
      else none
    else none
  | .sNotify i =>
    if i < s.n ∧ s.spc i = .notifyRecv then some { s with rreg := false, spc := upd s.spc i .idle } else none
  | .rBegin => if s.rpc = .handler ∧ s.closed = false then some { s with rpc := .try1 } else none
  | .rRepoll => if s.rpc = .pending then some { s with rpc := .try1 } else none
  | .rTry1 =>
    if s.rpc = .try1 then
      if 0 < s.msgs then some { s with msgs := s.msgs - 1, popped := s.popped + 1, rpc := .release }
      else some { s with rpc := .reg }
    else none
  | .rReg => if s.rpc = .reg then some { s with rreg := true, rpc := .try2 } else none
  | .rTry2 =>
    if s.rpc = .try2 then
      if 0 < s.msgs then some { s with msgs := s.msgs - 1, popped := s.popped + 1, rpc := .unreg }
      else some { s with rpc := .pending }
    else none
  | .rUnreg => if s.rpc = .unreg then some { s with rreg := false, rpc := .release } else none
  | .rRelease => if s.rpc = .release then some { s with occ := s.occ - 1, rpc := .notify } else none
  | .rNotify k =>
    if s.rpc = .notify then
      if s.always = false ∧ s.occ + 1 ≠ s.cap then some { s with rpc := .handler }
      else if setEmpty s then some { s with rpc := .handler }
      else if k < s.n ∧ s.inset k = true then some { s with inset := upd s.inset k false, rpc := .handler }
      else none
    else none

inductive Reach (n cap : Nat) (always : Bool) : St → Prop
  | init : Reach n cap always (St.init n cap always)
  | step {s s' : St} (l : Label) : Reach n cap always s → step l s = some s' → Reach n cap always s'

/-- a sender that sleeps: it returned `Pending` and its notifier is still in the wait set -/
def Sleeping (s : St) (i : Nat) : Prop := i < s.n ∧ s.spc i = .pending ∧ s.inset i = true

/-- the receiver sleeps: it returned `Pending` and its waker is still registered -/
def RSleeping (s : St) : Prop := s.rpc = .pending ∧ s.rreg = true

/-- nothing is in progress: every sender is idle or sleeping, the receiver sleeps or is not receiving, nobody is in the
middle of closing the mailbox -/
def Quiescent (s : St) : Prop :=
  (∀ i, i < s.n → s.spc i = .idle ∨ (s.spc i = .pending ∧ s.inset i = true)) ∧
  (s.rpc = .handler ∨ (s.rpc = .pending ∧ s.rreg = true)) ∧ s.cpc = false

end NexoVerif.Chan
