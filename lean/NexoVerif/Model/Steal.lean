/-
M-STEAL — the pure bit-level core of work stealing in the multi-threaded executor:
`util/bit.rs::find_bit` (tree of adders + branchless binary search, for a 64-bit `usize`), the masks of `sum_masks`,
`util/rng.rs::Rng::gen_bounded` (multiply-shift on the 64-bit output of `gen`) and the rank closure of
`ShuffledStealers::new` (`rng.gen_bounded(count) + 1`).  Written over `BitVec 64` because the code *is* about
wrap-around bit arithmetic.  Import-free.  The source text the model was transcribed from is pinned by extraction
(`Extracted.findBitSrc`, `genBoundedSrc`, `stealRankSrc`; theorem `steal_sources_are_the_modelled_ones` under C04).
-/
namespace NexoVerif.Steal

local notation "U" => BitVec 64

def M0 : U := 0x5555555555555555#64
def M1 : U := 0x3333333333333333#64
def M2 : U := 0x0F0F0F0F0F0F0F0F#64
def M3 : U := 0x00FF00FF00FF00FF#64
def M4 : U := 0x0000FFFF0000FFFF#64
def M5 : U := 0x00000000FFFFFFFF#64

/-- the mask formula of `sum_masks`: `!0 / (1 + (1 << (1 << p)))` -/
def maskFormula (p : Nat) : U := BitVec.allOnes 64 / (1#64 + (1#64 <<< (1 <<< p : Nat)))

def sums (value : U) : U × U × U × U × U × U × U :=
  let s0 := value
  let s1 := value - ((value >>> 1) &&& M0)
  let s2 := (s1 &&& M1) + ((s1 >>> 2) &&& M1)
  let s3 := (s2 + (s2 >>> 4)) &&& M2
  let s4 := (s3 + (s3 >>> 8)) &&& M3
  let s5 := (s4 + (s4 >>> 16)) &&& M4
  let s6 := (s5 + (s5 >>> 32)) &&& M5
  (s0, s1, s2, s3, s4, s5, s6)

/-- one turn of the branchless binary search, for level `p` with sub-sums `sp` -/
def searchStep (p : Nat) (sp : U) (rs : U × U) : U × U :=
  let rank := rs.1
  let shift := rs.2
  let subMask : U := (1#64 <<< (1 <<< p : Nat)) - 1#64
  let lower := (sp >>> shift) &&& subMask
  let cmpMask := BitVec.sshiftRight (lower - rank) 63
  (rank - (lower &&& cmpMask), shift + ((BitVec.ofNat 64 (1 <<< p)) &&& cmpMask))

/-- `find_bit(value, rank_fn)` for a 64-bit `usize` -/
def findBit (value : U) (rankFn : U → U) : U :=
  let (s0, s1, s2, s3, s4, s5, s6) := sums value
  let r := rankFn s6
  (searchStep 0 s0 (searchStep 1 s1 (searchStep 2 s2 (searchStep 3 s3 (searchStep 4 s4 (searchStep 5 s5 (r, 0#64))))))).2

def popCount (value : U) : U := (sums value).2.2.2.2.2.2

/-- `Rng::gen_bounded` on the 64-bit output `r` of `gen`: the high half of the 128-bit product -/
def genBounded (r bound : Nat) : Nat := (r * bound) >>> 64

/-- the first candidate of `ShuffledStealers::new` for a non-empty candidate set, `r` being the output of `Rng::gen` -/
def firstCandidate (candidates : BitVec 64) (r : Nat) : BitVec 64 :=
  findBit candidates (fun count => BitVec.ofNat 64 (genBounded r count.toNat + 1))

/-- `ShuffledStealers::new`: the candidate set right-rotated (within the `n = stealers.len()` low bits) so that the
first candidate `pos` becomes the LSB.  The left shift is by `n - pos`: in Rust a shift by the word width panics when
overflow checks are on and shifts by 0 otherwise, so the model is faithful for `n - pos < 64` only. -/
def rotate (c pos n : BitVec 64) : BitVec 64 :=
  let lower := c &&& ((1#64 <<< pos) - 1#64)
  (c >>> pos) ||| (lower <<< (n - pos))

/-- the amount of the left shift in `ShuffledStealers::new` -/
def rotateShift (n pos : Nat) : Nat := n - pos

/-- the bodies the model was transcribed from (comments stripped, white space normalised) -/
def findBitSrcModelled : String := "const P: usize = usize::BITS.trailing_zeros() as usize; const M: [usize; P] = sum_masks(); const _: () = assert!(usize::BITS.is_power_of_two()); const _: () = assert!(P >= 2); let mut sum = [0; P + 1]; sum[0] = value; sum[1] = value - ((value >> 1) & M[0]); sum[2] = (sum[1] & M[1]) + ((sum[1] >> 2) & M[1]); for p in 2..P { sum[p + 1] = (sum[p] + (sum[p] >> (1 << p))) & M[p]; } let mut rank = rank_fn(sum[P]); let mut shift = 0usize; for p in (0..P).rev() { let sub_mask = (1 << (1 << p)) - 1; let lower_sum = (sum[p] >> shift) & sub_mask; let cmp_mask = ((lower_sum as isize - rank as isize) >> (isize::BITS - 1)) as usize; rank -= lower_sum & cmp_mask; shift += (1 << p) & cmp_mask; } shift"
def sumMasksSrcModelled : String := "const P: usize = usize::BITS.trailing_zeros() as usize; const _: () = assert!( usize::BITS == 1 << P, \"sum masks are only supported for `usize` with a power-of-two bit width\" ); let mut m = [0usize; P]; let mut p = 0; while p != P { m[p] = !0 / (1 + (1 << (1 << p))); p += 1; } m"
def genBoundedSrcModelled : String := "((self.gen() as u128 * upper_bound as u128) >> 64) as u64"
def stealNewSrcModelled : String := "let (candidates, next_candidate) = if candidates == 0 { (0, 0) } else { let next_candidate = bit::find_bit(candidates, |count| { rng.gen_bounded(count as u64) as usize + 1 }); let candidate_count = stealers.len(); let lower_bits = candidates & ((1 << next_candidate) - 1); let candidates = (candidates >> next_candidate) | (lower_bits << (candidate_count - next_candidate)); (candidates, next_candidate) }; Self { stealers, candidates, next_candidate, }"
def stealRankSrcModelled : String := "rng.gen_bounded(count as u64) as usize + 1"

end NexoVerif.Steal
