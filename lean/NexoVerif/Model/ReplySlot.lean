/-
M-SLOT — the one-shot slot of `util/slot.rs` (the reply of `Simulation::process_query` and of a `QuerySource` travels
through it): one `SlotWriter`, one `SlotReader`, a heap cell with a state word (`CLOSED`, `POPULATED`) and a value.

The writer is consumed by `write(value)` or dropped; the reader may call `try_read` any number of times and is then
dropped.  Every atomic operation and every access to the value is a step; every interleaving of writer and reader;
sequentially consistent.  The allocation is freed by whoever finds `CLOSED` already set; the value is read at most
once and otherwise dropped in place.  `bad` records what would be undefined behaviour in the code: an access after the
allocation was freed, a second free, reading or dropping a value that is not there, overwriting a value.  No imports.
-/
namespace NexoVerif.Slot

/-- the value cell -/
inductive Cell where
  | empty    -- never written
  | full     -- written, owned by the slot
  | taken    -- moved out by `try_read`
  | dropped  -- dropped in place
  deriving DecidableEq, Repr

inductive WPc where
  | idle            -- the writer handle exists
  | wrote           -- `write`: value written, before the `fetch_or(POPULATED | CLOSED)`
  | mustClean       -- `write`: the `fetch_or` found `CLOSED`: drop the value, free the allocation, `Err`
  | dropLoaded      -- `drop`: the load saw `CLOSED` clear, before the `fetch_or(CLOSED)`
  | mustFree        -- `drop`: `CLOSED` was already set: free the allocation
  | done
  deriving DecidableEq, Repr

inductive RPc where
  | idle            -- the reader handle exists, no call in progress
  | readStore       -- `try_read`: the load saw `POPULATED`, before the `store(CLOSED)`
  | readValue       -- `try_read`: after the store, before the value is moved out
  | dropLoaded      -- `drop`: the load saw `CLOSED` clear, before the `fetch_or(CLOSED)`
  | mustFree (pop : Bool)  -- `drop`: `CLOSED` was already set; `pop`: `POPULATED` was set too (drop the value first)
  | done
  deriving DecidableEq, Repr

structure St where
  closed : Bool := false
  pop    : Bool := false
  cell   : Cell := .empty
  freed  : Nat := 0
  wpc    : WPc := .idle
  rpc    : RPc := .idle
  /-- results: the write returned `Ok`; number of successful reads -/
  wroteOk : Bool := false
  reads   : Nat := 0
  bad    : Bool := false
  deriving DecidableEq, Repr

inductive Label where
  | wWriteValue     -- `write_value(value)`
  | wPublish        -- `fetch_or(POPULATED | CLOSED)`
  | wClean          -- drop the value in place and free
  | wDropLoad       -- `drop`: `state.load()`
  | wDropOr         -- `drop`: `fetch_or(CLOSED)`
  | wFree
  | rTryLoad        -- `try_read`: `state.load()`
  | rTryStore       -- `store(CLOSED)`
  | rTryTake        -- `read_value()`
  | rDropLoad
  | rDropOr
  | rFree
  deriving DecidableEq, Repr

/-- any access to the allocation -/
def St.touch (s : St) : St := if s.freed = 0 then s else { s with bad := true }

def St.free (s : St) : St := if s.freed = 0 then { s with freed := 1 } else { s with freed := s.freed + 1, bad := true }

def step (l : Label) (s0 : St) : Option St :=
  match l with
  | .wWriteValue =>
    if s0.wpc = .idle then
      let s := s0.touch
      some { s with cell := .full, wpc := .wrote, bad := s.bad || (s0.cell != .empty) }
    else none
  | .wPublish =>
    if s0.wpc = .wrote then
      let s := s0.touch
      if s0.closed then some { s with pop := true, wpc := .mustClean }
      else some { s with pop := true, closed := true, wpc := .done, wroteOk := true }
    else none
  | .wClean =>
    if s0.wpc = .mustClean then
      let s := s0.touch
      some (St.free { s with cell := Cell.dropped, wpc := WPc.done, bad := s.bad || (s0.cell != Cell.full) })
    else none
  | .wDropLoad =>
    if s0.wpc = .idle then
      let s := s0.touch
      some { s with wpc := if s0.closed then .mustFree else .dropLoaded }
    else none
  | .wDropOr =>
    if s0.wpc = .dropLoaded then
      let s := s0.touch
      some { s with closed := true, wpc := if s0.closed then .mustFree else .done }
    else none
  | .wFree => if s0.wpc = .mustFree then some (St.free { s0 with wpc := WPc.done }) else none
  | .rTryLoad =>
    if s0.rpc = .idle then
      let s := s0.touch
      -- `state == 0`: NoValue; `POPULATED` clear: Closed; else go on
      some { s with rpc := if s0.pop then .readStore else .idle }
    else none
  | .rTryStore =>
    if s0.rpc = .readStore then
      let s := s0.touch
      some { s with closed := true, pop := false, rpc := .readValue }
    else none
  | .rTryTake =>
    if s0.rpc = .readValue then
      let s := s0.touch
      some { s with cell := .taken, reads := s0.reads + 1, rpc := .idle, bad := s.bad || (s0.cell != .full) }
    else none
  | .rDropLoad =>
    if s0.rpc = .idle then
      let s := s0.touch
      some { s with rpc := if s0.closed then .mustFree s0.pop else .dropLoaded }
    else none
  | .rDropOr =>
    if s0.rpc = .dropLoaded then
      let s := s0.touch
      some { s with closed := true, rpc := if s0.closed then .mustFree s0.pop else .done }
    else none
  | .rFree =>
    match s0.rpc with
    | .mustFree p =>
      let s : St := if p then { s0.touch with cell := Cell.dropped, bad := s0.touch.bad || (s0.cell != Cell.full) } else s0
      some (St.free { s with rpc := RPc.done })
    | _ => none

inductive Reach : St → Prop
  | init : Reach {}
  | step {s s'} (l : Label) : Reach s → step l s = some s' → Reach s'

def runLabels (ls : List Label) (s : St) : Option St := ls.foldlM (fun s l => step l s) s

end NexoVerif.Slot
