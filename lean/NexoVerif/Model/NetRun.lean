import NexoVerif.Model.Net
/-!
Executable glue for M-NET: concrete bench descriptions (models, ports, connections with map/filter, handler
scripts), their `Prog`, and a deterministic scheduler that runs the transition system to quiescence.  The order
chosen by this scheduler is one of the schedules the theorems quantify over; the correspondence check compares
only schedule-independent observables (results, multisets of handler invocations, replies, sink contents).
-/
namespace NexoVerif.Net

structure Conn where
  dst : Dst
  add : Nat := 0          -- map: payload ↦ payload + add
  fmod : Nat := 0         -- filter: accepted iff fmod = 0 ∨ payload % fmod = fres
  fres : Nat := 0
deriving Repr, Inhabited

/-- one port operation of a handler script -/
structure POp where
  query : Bool
  port : Nat
  cmod : Nat := 0         -- performed iff cmod = 0 ∨ handled payload % cmod = cres
  cres : Nat := 0
deriving Repr, Inhabited

structure MDef where
  cap : Nat
  inSim : Bool
  name : String
  ports : List (List Conn)
  react : List POp
  initOps : List POp
  panicOn : Option Nat := none      -- the handler panics when it handles exactly this payload
  sleepOn : Option Nat := none      -- the handler overruns the step timeout on this payload
deriving Repr, Inhabited

structure Bench where
  models : List MDef
deriving Repr, Inhabited

def accept (c : Conn) (p : Nat) : Option Nat :=
  if c.fmod = 0 ∨ p % c.fmod = c.fres then some (p + c.add) else none

/-- the operations a script performs for `payload`: the k-th script line of model `self` sends `payload·100 + self·10 + k + 1` through its port (unique per invocation);
an operation with no accepting connection is a no-op -/
def opsOf (self : Nat) (md : MDef) (pops : List POp) (payload : Nat) : List Op :=
  ((List.range pops.length).zip pops).filterMap fun (k, po) =>
    if po.cmod = 0 ∨ payload % po.cmod = po.cres then
      let op : Op := (md.ports.getD po.port []).filterMap fun c =>
        (accept c (payload * 100 + self * 10 + k + 1)).map fun p' => (c.dst, p', po.query)
      if op.isEmpty then none else some op
    else none

def Bench.prog (b : Bench) : Prog :=
  { react := fun m p => match b.models[m]? with | some md => opsOf m md md.react p | none => []
    reply := fun m p => p * 3 + m + 1
    initPayload := fun m => 9000 + 10 * m
    initOps := fun m => match b.models[m]? with | some md => opsOf m md md.initOps (9000 + 10 * m) | none => []
    cap := fun m => match b.models[m]? with | some md => md.cap | none => 0
    isModel := fun m => m < b.models.length
    inSim := fun m => match b.models[m]? with | some md => md.inSim | none => false
    faultOn := fun m p => match b.models[m]? with
      | some md => if md.panicOn = some p then some .panic else if md.sleepOn = some p then some .sleep else none
      | none => none }

/-- candidate labels of task `t`, in the order the scheduler tries them -/
def candidates (s : St) (t : Nat) : List Label :=
  [Label.finish t, Label.opDone t] ++ ((List.range (s.task t).cur.length).map (Label.push t)) ++ [Label.start t, Label.deliver t]

def firstEnabled (P : Prog) (s : St) : List Label → Option St
  | [] => none
  | l :: r => match step P l s with
    | some s' => some s'
    | none => firstEnabled P s r

/-- Re-tabulate the function-valued components on the given ids (extensionally the same state as long as only
these ids were ever touched); keeps look-ups O(|ids|) instead of O(number of updates so far). -/
def normalize (ids : List Nat) (s : St) : St :=
  let tl := ids.map fun i => (i, s.task i)
  let ml := ids.map fun i => (i, s.mbox i)
  { s with task := fun j => match tl.lookup j with | some t => t | none => St.init.task j
           mbox := fun j => match ml.lookup j with | some b => b | none => [] }

/-- run to quiescence (no label enabled) with a fixed task order -/
def runQ (P : Prog) (tasks : List Nat) : Nat → St → St
  | 0, s => s
  | fuel + 1, s =>
    match firstEnabled P s (tasks.flatMap (candidates s)) with
    | some s' => runQ P tasks fuel (normalize tasks s')
    | none => s

def quiescent (P : Prog) (tasks : List Nat) (s : St) : Bool := (firstEnabled P s (tasks.flatMap (candidates s))).isNone

end NexoVerif.Net
