/-! Memory orderings and the small IR in which the extractor records atomic-operation sequences. No imports. -/
namespace NexoVerif

inductive Ord | relaxed | acquire | release | acqrel | seqcst
deriving DecidableEq, Repr, Inhabited

def Ord.isAcq : Ord → Bool | .acquire | .acqrel | .seqcst => true | _ => false
def Ord.isRel : Ord → Bool | .release | .acqrel | .seqcst => true | _ => false

/-- one atomic operation of a function body, in textual order -/
inductive AOp
  | load (loc : String) (o : Ord)
  | store (loc : String) (o : Ord)
  | rmw (loc : String) (op : String) (o : Ord)
  | cas (loc : String) (succ fail : Ord)
  | fence (o : Ord)
  | call (name : String)          -- a call the model treats as a unit (e.g. tearable_store)
deriving DecidableEq, Repr, Inhabited

end NexoVerif
