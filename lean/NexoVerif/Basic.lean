def hello := "world"
