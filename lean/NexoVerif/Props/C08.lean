/-
C08 — Scheduling requests are validated and race-free.

Theorems about M-SCHED.  A request is `sched s r` — executed atomically under the queue lock, whoever
issues it (driver `Scheduler` handle, model `Context`, or a `Scheduler` handle on another thread: the
model lets such foreign requests run at every point where the stepping code holds no lock, `Prog.ext`).
-/
import NexoVerif.Lemmas.SchedLog
import NexoVerif.Extracted

namespace NexoVerif.Sched
set_option linter.unusedSimpArgs false
set_option linter.unusedVariables false

/-- **sched_accepts_iff** — a request is accepted iff its deadline is strictly after the current time and its
period, if any, is non-zero. -/
theorem sched_accepts_iff (s : St) (r : SchedReq) :
    (sched s r).2 = .ok ↔ s.now < r.time s.now ∧ r.period ≠ some 0 := sched_ok_iff s r

/-- **sched_rejected_no_effect** — a rejected request leaves the whole state unchanged, and the only rejections
are `InvalidScheduledTime` and `NullRepetitionPeriod`. -/
theorem sched_rejected_no_effect (s : St) (r : SchedReq) (h : (sched s r).2 ≠ .ok) :
    (sched s r).1 = s ∧ ((sched s r).2 = .invalidTime ∨ (sched s r).2 = .nullPeriod) := by
  refine ⟨sched_reject_noop s r h, ?_⟩
  unfold sched at h ⊢
  split
  · exact Or.inr rfl
  · split
    · exact Or.inl rfl
    · rename_i h1 h2; simp [h1, h2] at h

/-- **sched_accepted_is_pending** — an accepted request is queued with exactly its deadline, origin, period and
targets, under a fresh epoch, and nothing else in the queue changes. -/
theorem sched_accepted_is_pending (s : St) (r : SchedReq) (h : (sched s r).2 = .ok) :
    ∃ e, e ∈ (sched s r).1.queue ∧ e.time = r.time s.now ∧ e.origin = r.origin ∧ e.aid = r.aid ∧
      e.period = r.period ∧ e.targets = r.targets ∧ e.epoch = s.nextEpoch ∧
      (∀ x, x ∈ (sched s r).1.queue ↔ x = e ∨ x ∈ s.queue) := by
  unfold sched at h ⊢
  split
  · rename_i hp; simp [hp] at h
  · split
    · rename_i hp ht; simp [hp, ht] at h
    · refine ⟨_, mem_insert.mpr (Or.inl rfl), rfl, rfl, rfl, rfl, rfl, rfl, ?_⟩
      intro x; exact mem_insert

/-- **every_stepping_call_returns** — thanks to the validation (no queued zero period, every pending deadline in
the future) the pull loop of a step needs at most `queue length` iterations and `step_until` at most
`target − now + 1` steps: no stepping call diverges, for any program, schedule and foreign requests. -/
theorem every_stepping_call_returns (prog : Prog) (ord : Oracle) (s : St) (h : Inv s) (target : Nat) :
    (step prog ord s).2 ≠ .diverged ∧ (stepUntil prog ord target s).2 ≠ .diverged := by
  refine ⟨?_, (stepUntil_spec prog ord target s h).2.2.1⟩
  unfold step
  show (stepNext prog ord none false s).2.1 ≠ .diverged
  rcases (stepNext_res prog ord none false s).1 with h1 | h1 | ⟨l, h1⟩ <;> rw [h1] <;> simp

/-- **pull_loop_complete** — when the locked phase of a step ends, no live action due at the step's time is left in
the queue (the fuel `queue length` was sufficient *because* every queued period is positive): accepted
actions are never silently left behind at their deadline. -/
theorem pull_loop_complete (bound : Option Nat) (jump : Bool) (s : St) (h : Inv s)
    (hb : ∀ b, bound = some b → s.now ≤ b) :
    ∀ e ∈ (lockedPhase bound jump s).1.queue, (lockedPhase bound jump s).1.now < e.time :=
  (lockedPhase_inv bound jump s h hb).1.future

/-- **race_free** — foreign scheduling requests issued while a stepping call is in progress (at its
synchronisation point, where no lock is held) cannot break the invariant: whatever they are, accepted ones
have deadlines strictly after the time already written, so they fire at their deadline in a later step. -/
theorem race_free (prog : Prog) (t : Nat) (s : St) (h : Inv s) :
    Inv (doSync prog t s).1 ∧ (doSync prog t s).1.now = s.now :=
  ⟨(doSync_inv prog t s h).1, (doSync_inv prog t s h).2.1⟩

/-- **requests_and_time_writes_are_atomic_in_the_source** — the atomicity M-SCHED assumes, read from the source on every
run: each of the five `schedule*_from` functions takes the scheduler-queue lock *before* it reads the time, converts
and validates the deadline and inserts the action; `step_to_next_bounded` writes the simulation time only while it
holds that lock and `step_until` has no time write of its own.  (A check-then-act reordering makes this `false`.) -/
theorem requests_and_time_writes_are_atomic_in_the_source :
    Extracted.schedValidatesUnderLock = true ∧ Extracted.stepWritesTimeUnderLock = true := by decide

/-! ## non-vacuity -/
private def req (isAbs : Bool) (dl : Nat) (p : Option Nat) : SchedReq :=
  { origin := 0, abs := isAbs, dl := dl, aid := 1, period := p, key := none, targets := [0], recheck := false }
example : (sched (St.init 10 none) (req false 0 none)).2 = .invalidTime := by decide
example : (sched (St.init 10 none) (req true 11 (some 0))).2 = .nullPeriod := by decide
example : (sched (St.init 10 none) (req true 11 (some 3))).2 = .ok := by decide

end NexoVerif.Sched
