/-
C18 — Clock synchronisation gates every time step.

Theorems about M-SCHED: `Obs.sync t` is logged by `doSync` (the call to `Clock::synchronize(t)`), `Obs.fire`
by every handler execution; the log is newest-first.  `Prog.clock n` is the answer of the n-th call
(`some lag` = `OutOfSync(lag)`), arbitrary.
-/
import NexoVerif.Lemmas.SchedShape

namespace NexoVerif.Sched
set_option linter.unusedSimpArgs false
set_option linter.unusedVariables false

/-- **sync_exactly_once_before_fires** — the part of a step that runs after the queue lock is released logs, on top of
the old log, exactly one `sync t` (then the answers to foreign requests), and only *after* it the handler
executions of this time: `log' = Run ++ Ext ++ [sync t] ++ log`, `Run` containing only handler
executions/skips, `Ext` only foreign-request answers.  So no computation for `t` starts before
`synchronize(t)` was called, it is called once, and everything logged earlier (all computations of earlier
times) precedes it. -/
theorem sync_exactly_once_before_fires (prog : Prog) (ord : Oracle) (t : Nat) (gs : List (List Entry)) (s : St) :
    ∃ R X, (afterLock prog ord t gs s).1.log = R ++ X ++ Obs.sync t :: s.log ∧
      (∀ o ∈ R, o.isRun) ∧ (∀ o ∈ X, o.isExt) := by
  obtain ⟨X, hX, hXp⟩ := doSync_shape prog t s
  unfold afterLock
  simp only
  have hrun : ∃ R, (runSeq prog (ord gs) (doSync prog t s).1).log = R ++ X ++ Obs.sync t :: s.log ∧ ∀ o ∈ R, o.isRun := by
    obtain ⟨R, hR, hRp⟩ := runSeq_ext prog (ord gs) (doSync prog t s).1
    exact ⟨R, by rw [hR, hX]; simp, hRp⟩
  split
  · split
    · exact ⟨[], X, by simp [hX], by simp, hXp⟩
    · obtain ⟨R, hR, hRp⟩ := hrun; exact ⟨R, X, hR, hRp, hXp⟩
  · obtain ⟨R, hR, hRp⟩ := hrun; exact ⟨R, X, hR, hRp, hXp⟩

/-- **locked_phase_logs_no_sync_no_fire** — before that point (under the queue lock) a step logs only the time write
and discarded cancelled actions: no handler runs and the clock is not consulted. -/
theorem locked_phase_logs_no_sync_no_fire (bound : Option Nat) (jump : Bool) (s : St) (o : Obs)
    (h : o ∈ (lockedPhase bound jump s).1.log) : o ∈ s.log ∨ o.isFire = false :=
  lockedPhase_log_mem bound jump s o h

/-- **lag_gates_step** — if the clock reports a lag above the configured tolerance, the step fails with
`OutOfSync(lag)`, the simulation is terminated, and *no* handler of the new time has run; with no
tolerance configured, or a lag ≤ tolerance, the lag is ignored and the step proceeds. -/
theorem lag_gates_step (prog : Prog) (ord : Oracle) (t : Nat) (gs : List (List Entry)) (s : St) :
    (∀ l tol, prog.clock s.syncCalls = some l → s.tol = some tol → l > tol →
      (afterLock prog ord t gs s).2.1 = .outOfSync l ∧ (afterLock prog ord t gs s).1.terminated = true ∧
      (afterLock prog ord t gs s).2.2 = none ∧
      ∃ X, (afterLock prog ord t gs s).1.log = X ++ Obs.sync t :: s.log ∧ ∀ o ∈ X, o.isExt) ∧
    ((s.tol = none ∨ prog.clock s.syncCalls = none ∨
        ∃ l tol, prog.clock s.syncCalls = some l ∧ s.tol = some tol ∧ l ≤ tol) →
      (afterLock prog ord t gs s).2.1 = .ok ∧ (afterLock prog ord t gs s).2.2 = some t) := by
  have htol : (doSync prog t s).1.tol = s.tol := (doSync_inv_frame prog t s).2
  have hclk : (doSync prog t s).2 = prog.clock s.syncCalls := rfl
  constructor
  · intro l tol hc ht hgt
    obtain ⟨X, hX, hXp⟩ := doSync_shape prog t s
    unfold afterLock
    simp only [hclk, htol, hc, ht, hgt, ite_true]
    exact ⟨trivial, trivial, trivial, X, by simp [hX], hXp⟩
  · intro h
    unfold afterLock
    simp only [hclk, htol]
    rcases h with h | h | ⟨l, tol, hc, ht, hle⟩
    · rw [h]; cases prog.clock s.syncCalls <;> exact ⟨rfl, rfl⟩
    · rw [h]; exact ⟨rfl, rfl⟩
    · have : ¬ l > tol := by omega
      simp only [hc, ht, this, ite_false]; exact ⟨trivial, trivial⟩

/-- **init_syncs_first** — initialisation writes the start time and calls `synchronize(start)` once before any `init`
code of a model runs (the init scripts of the models run on the state left by the synchronisation and see the start
time); nothing else is logged: the log of the initial state is `Ext ++ [sync t0, setTime t0]`. -/
theorem init_syncs_first (prog : Prog) (t0 : Nat) (tol : Option Nat) :
    (∃ X, (initSim prog t0 tol).log = X ++ [Obs.sync t0, Obs.setTime t0] ∧ ∀ o ∈ X, o.isExt) ∧
    initSim prog t0 tol = runInits prog prog.inits (doSync prog t0 (writeTime t0 (St.init t0 tol))).1 ∧
    (initSim prog t0 tol).now = t0 := by
  obtain ⟨X, hX, hXp⟩ := doSync_shape prog t0 (writeTime t0 (St.init t0 tol))
  have h0 : Inv (writeTime t0 (St.init t0 tol)) := by
    refine ⟨?_, ?_, ?_, ?_⟩ <;> simp [writeTime, St.init, Sorted]
  refine ⟨⟨X, ?_, hXp⟩, rfl, init_now prog t0 tol⟩
  unfold initSim
  rw [(runInits_inv prog _ _ (doSync_inv prog t0 _ h0).1).2.2, hX]; simp [writeTime, St.init]

/-- **sync_argument_is_new_time** — the time passed to `synchronize` by a step is the time the step moves to, which is
strictly later than the previous time; the final jump of `step_until` synchronises on the target.  Hence
the arguments of successive `synchronize` calls never decrease. -/
theorem sync_argument_is_new_time (prog : Prog) (ord : Oracle) (bound : Option Nat) (jump : Bool) (s : St) (h : Inv s)
    (hb : ∀ b, bound = some b → s.now ≤ b) (s1 : St) (t : Nat) (gs : List (List Entry))
    (hl : lockedPhase bound jump s = (s1, some (t, gs))) :
    s.now < t ∧ s1.now = t ∧ (afterLock prog ord t gs s1).1.now = t := by
  have := lockedPhase_inv bound jump s h hb
  rw [hl] at this
  simp only at this
  exact ⟨this.2.2.2.1, this.2.2.1, by rw [(afterLock_inv prog ord t gs s1 this.1).2, this.2.2.1]⟩

/-- **step_until_final_jump_syncs_target** — when nothing (more) is due up to the target, `step_until` moves the time to
the target under the lock and then synchronises exactly once on the target. -/
theorem step_until_final_jump_syncs_target (prog : Prog) (ord : Oracle) (target fuel : Nat) (s s1 : St)
    (h : stepNext prog ord (some target) true s = (s1, .ok, none)) :
    stepUntilLoop prog ord target (fuel + 1) s = ((doSync prog target s1).1, .ok) ∧
    ∃ X, (doSync prog target s1).1.log = X ++ Obs.sync target :: s1.log ∧ ∀ o ∈ X, o.isExt := by
  constructor
  · rw [stepUntilLoop, h]
  · obtain ⟨X, hX, hXp⟩ := doSync_shape prog target s1
    exact ⟨X, by rw [hX], hXp⟩

/-! ## non-vacuity -/
example : (afterLock { handler := fun _ _ _ => [], clock := fun _ => some 7, ext := fun _ => [] } spawnOrder 5 []
    (St.init 0 (some 3))).2.1 = .outOfSync 7 := by decide

end NexoVerif.Sched
