/-
C20 — Priority queues: stable minimum extraction and non-aliasing keys.

Property theorems only; helper lemmas are in Lemmas/PQLemmas.lean and Lemmas/Heap*.lean.  Every statement is for every
reachable queue / every operation history — no bound on length, keys or values.
-/
import NexoVerif.Model.PQ
import NexoVerif.Lemmas.PQLemmas
import NexoVerif.Lemmas.HeapRefine
import NexoVerif.Lemmas.PQFree
import NexoVerif.Extracted

namespace NexoVerif.PQ
set_option linter.unusedSimpArgs false
set_option linter.unusedVariables false

/-! ## C20.1  `Item::cmp` — the heap order is the reversed lexicographic order on (key, epoch) -/

/-- **item_cmp_reversed_lex** — `a ≥ b` for the max-heap iff `(a.key, a.epoch) ≤ (b.key, b.epoch)`; the order is
total, so with pairwise distinct epochs the heap's maximum is unique. -/
theorem item_cmp_reversed_lex (a b : Item) :
    a.geHeap b = a.lexLe b ∧ (a.lexLe b = true ∨ b.lexLe a = true) ∧
    (a.lexLe b = true → b.lexLe a = true → a.key = b.key ∧ a.epoch = b.epoch) := by
  refine ⟨geHeap_iff_lexLe a b, lexLe_total a b, ?_⟩
  intro h1 h2
  rw [lexLe_iff] at h1 h2
  omega

/-! ## C20.2  PriorityQueue: pull yields the smallest key, the earliest inserted among equal keys -/

/-- **pq_inv** — every queue reachable from `new` by insert/pull keeps its epochs strictly increasing in
insertion order and below `nextEpoch` (so all epochs are distinct and "smaller epoch" = "inserted earlier"). -/
theorem pq_inv (ops : List (Option (Nat × Nat))) :
    (ops.foldl (fun q op => match op with | some (k, v) => q.insert k v | none => q.pull.1) PQ.new).Inv := by
  suffices h : ∀ (q : PQ), q.Inv →
      (ops.foldl (fun q op => match op with | some (k, v) => q.insert k v | none => q.pull.1) q).Inv from
    h _ pq_inv_new
  induction ops with
  | nil => intro q h; exact h
  | cons op ops ih =>
    intro q h
    simp only [List.foldl_cons]
    apply ih
    cases op with
    | none => exact pq_inv_pull q h
    | some kv => exact pq_inv_insert q kv.1 kv.2 h

/-- **pq_pull_min** — `pull` returns an entry `m` of the queue with `(m.key, m.epoch)` ≤ that of every queued entry,
removes exactly that entry, and `peek` announces the same pair. -/
theorem pq_pull_min (q : PQ) :
    match q.pull with
    | (q', none)        => q.heap = [] ∧ q' = q ∧ q.peek = none
    | (q', some (k, v)) => ∃ m ∈ q.heap, (k, v) = (m.key, m.val) ∧ (∀ x ∈ q.heap, m.lexLe x = true) ∧
                            q'.heap = q.heap.erase m ∧ q'.nextEpoch = q.nextEpoch ∧ q.peek = some (k, v) := by
  unfold PQ.pull PQ.peek
  cases hm : maxItem q.heap with
  | none => simp [(maxItem_none _).mp hm]
  | some m =>
    obtain ⟨h1, h2⟩ := maxItem_spec _ _ hm
    exact ⟨m, h1, rfl, h2, rfl, rfl, rfl⟩

/-- **pq_fifo_among_equal_keys** — in a reachable queue, the pulled entry was inserted before every other queued
entry with the same key (strictly smaller epoch, and epochs grow with insertion order). -/
theorem pq_fifo_among_equal_keys (q : PQ) (hq : q.Inv) (m : Item) (hm : maxItem q.heap = some m) :
    ∀ x ∈ q.heap, x ≠ m → x.key = m.key → m.epoch < x.epoch := by
  obtain ⟨h1, h2⟩ := maxItem_spec _ _ hm
  intro x hx hne hk
  have hle := h2 x hx
  rw [lexLe_iff] at hle
  have hdist : x.epoch ≠ m.epoch := by
    intro he
    -- equal epochs in a list whose epochs are pairwise strictly increasing ⇒ same element
    have hnd : ∀ (l : List Item), l.Pairwise (fun a b => a.epoch < b.epoch) →
        ∀ a ∈ l, ∀ b ∈ l, a.epoch = b.epoch → a = b := by
      intro l
      induction l with
      | nil => intro _ a ha; simp at ha
      | cons c r ih =>
        intro hp a ha b hb hab
        have hpc := List.pairwise_cons.mp hp
        simp at ha hb
        rcases ha with rfl | ha <;> rcases hb with rfl | hb
        · rfl
        · have := hpc.1 b hb; omega
        · have := hpc.1 a ha; omega
        · exact ih hpc.2 a ha b hb hab
    exact hne (hnd q.heap hq.1 x hx m h1 he)
  omega

/-- **pq_refines_stable_sorted_list** — the queue behaves as the list kept sorted by key with *stable* insertion
(`sortedOf` replays the insertions): insert = stable ordered insertion, pull = remove the head.  This is the
specification M-SCHED uses for the scheduler queue. -/
theorem pq_refines_stable_sorted_list (q : PQ) (hq : q.Inv) :
    (∀ k v, sortedOf (q.insert k v).heap = insStable (sortedOf q.heap) { key := k, epoch := q.nextEpoch, val := v }) ∧
    (match q.pull with
     | (q', none)        => sortedOf q.heap = []
     | (q', some (k, v)) => ∃ m, sortedOf q.heap = m :: sortedOf q'.heap ∧ (k, v) = (m.key, m.val)) := by
  constructor
  · intro k v
    simp [sortedOf, PQ.insert, List.foldl_append]
  · unfold PQ.pull
    cases hm : maxItem q.heap with
    | none => simp [(maxItem_none _).mp hm, sortedOf]
    | some m => exact ⟨m, pull_refines_aux q.heap m hq.1 hm, rfl⟩

/-! ## C20.3  IndexedPriorityQueue: minimum extraction -/

/-- **ipq_pull_min** — `pull`/`peek`/`peek_key` of the keyed queue designate a used node whose `(key, epoch)` is ≤ that
of every used node (so, epochs being issued in increasing order, the first inserted among equal keys). -/
theorem ipq_pull_min (q : IPQ) :
    match q.pull with
    | (_, none)        => (∀ (i : Nat) (it : Item), q.slab[i]? ≠ some (Node.used it)) ∨ minUsed q.slab 0 = none
    | (q', some (k, v)) => ∃ i m, q.slab[i]? = some (Node.used m) ∧ (k, v) = (m.key, m.val) ∧
        (∀ (j : Nat) (it : Item), q.slab[j]? = some (Node.used it) → m.lexLe it = true) ∧
        q.peek = some (k, v) ∧ q.peekKey = some k ∧ q'.slab = q.slab.set i (Node.free q.firstFree) := by
  unfold IPQ.pull IPQ.peek IPQ.peekKey
  cases hm : minUsed q.slab 0 with
  | none => simp
  | some p =>
    obtain ⟨i, m⟩ := p
    obtain ⟨_, h2, h3⟩ := minUsed_spec q.slab 0 i m hm
    exact ⟨i, m, by simpa using h2, rfl, h3, rfl, rfl, rfl⟩

/-! ## C20.4  non-aliasing keys -/

/-- **key_no_alias** — the key `(i, e)` returned by `insert k v` never designates another entry: after *any*
further history of inserts, pulls and extractions (slot `i` may have been freed and reused any number of
times), `extract (i, e)` returns either nothing or exactly `(k, v)`. -/
theorem key_no_alias (q : IPQ) (hb : EpochsBelow q) (k v : Nat) (hne : (q.insert k v).1.err = false)
    (ops : List IOp) (r : Nat × Nat)
    (hx : (((q.insert k v).1.runOps ops).extract (q.insert k v).2.1 (q.insert k v).2.2).2 = some r) :
    r = (k, v) := by
  have hown := owns_runOps _ ops _ _ k v (owns_after_insert q k v hb hne)
  generalize (q.insert k v).1.runOps ops = q2 at hown hx
  generalize (q.insert k v).2.1 = i at hown hx
  generalize (q.insert k v).2.2 = e at hown hx
  unfold IPQ.extract at hx
  split at hx
  · rename_i it hs
    split at hx
    · simp at hx
    · rename_i he
      simp at he
      obtain ⟨_, hit⟩ := hown.2 i it hs he
      simp at hx
      subst hit
      exact hx.symm
  · simp at hx

/-- **key_finds_own_entry** — conversely, while the entry is still queued its key extracts it. -/
theorem key_finds_own_entry (q : IPQ) (i : Nat) (it : Item) (h : q.slab[i]? = some (Node.used it)) :
    (q.extract i it.epoch).2 = some (it.key, it.val) ∧
    (q.extract i it.epoch).1.slab[i]? = some (Node.free q.firstFree) := by
  unfold IPQ.extract
  simp [h]
  have : i < q.slab.length := by
    rcases Nat.lt_or_ge i q.slab.length with hlt | hge
    · exact hlt
    · rw [List.getElem?_eq_none hge] at h; simp at h
  simp [this]

/-- **stale_key_rejected** — a key whose epoch differs from the epoch stored in its slot (the slot was reused), or
whose slot is free or out of range, extracts nothing and leaves the queue unchanged. -/
theorem stale_key_rejected (q : IPQ) (i e : Nat)
    (h : ∀ it, q.slab[i]? = some (Node.used it) → it.epoch ≠ e) : q.extract i e = (q, none) := by
  unfold IPQ.extract
  split
  · rename_i it hs
    have := h it hs
    simp [this]
  · rfl

/-- **epochs_below_reachable** — the hypothesis of `key_no_alias` holds in every reachable state. -/
theorem epochs_below_reachable (ops : List IOp) : EpochsBelow (IPQ.new.runOps ops) := by
  suffices h : ∀ q, EpochsBelow q → EpochsBelow (q.runOps ops) from
    h _ (by intro j it hj; simp [IPQ.new] at hj)
  induction ops with
  | nil => intro q h; exact h
  | cons op ops ih => intro q h; exact ih _ (epochsBelow_step q op h)

/-! ## non-vacuity -/

example : (PQ.new.insert 5 1 |>.insert 2 2 |>.insert 2 3 |>.pull).2 = some (2, 2) := by decide
example : (((IPQ.new.insert 5 1).1.runOps [.pull, .ins 7 9]).extract 0 0).2 = none ∧
          (((IPQ.new.insert 5 1).1.runOps [.pull, .ins 7 9]).extract 0 1).2 = some (7, 9) := by
  constructor <;> decide
example : (IPQ.new.insert 5 1).1.err = false := by decide

end NexoVerif.PQ

/-! ## C20.5  the binary heap inside the keyed queue (M-HEAP)

`IPQ` above says *which* entry `pull` designates ("the used node with the least (key, epoch)").  M-HEAP is the code:
the heap array, the slab nodes with their back-pointing heap index, `sift_up` and `sift_down` moving parents / children
into a vacant spot.  The theorems below say that the code computes what `IPQ` says, for every history. -/

namespace NexoVerif.Heap
open NexoVerif.PQ (IPQ)

/-- **heap_program_shape** — the text of `insert`, `pull`, `extract`, `peek`, `peek_key`, `sift_up`, `sift_down` and the
field order of `UniqueKey` that M-HEAP was transliterated from, compared on every run (comments and white space
aside). -/
theorem heap_program_shape :
    Extracted.ipqInsertIsAsModelled = true ∧ Extracted.ipqPullIsAsModelled = true ∧
    Extracted.ipqExtractIsAsModelled = true ∧ Extracted.ipqSiftUpIsAsModelled = true ∧
    Extracted.ipqSiftDownIsAsModelled = true ∧ Extracted.ipqPeekIsAsModelled = true ∧
    Extracted.ipqPeekKeyIsAsModelled = true ∧ Extracted.ipqUniqueKeyIsKeyThenEpoch = true := by decide

/-- **heap_and_slab_stay_cross_indexed_and_ordered** — after every history of inserts, pulls and extractions (with any
keys, live, stale or forged): every heap item points at a used slab node inside the slab whose `heap_idx` points back
at it, every used slab node points at a heap item inside the heap that points back at it (so no index of `sift_up`,
`sift_down`, `pull`, `extract` is out of bounds and no `unwrap_*` hits the wrong kind of node), and every heap item is
at least its parent in the order of `UniqueKey`. -/
theorem heap_and_slab_stay_cross_indexed_and_ordered (ops : List HOp) :
    let q := HQ.new.runOps ops
    (∀ k, k < q.heap.size → (rd q.heap k).slab < q.slab.size ∧ ∃ v, rd q.slab (rd q.heap k).slab = .used v k) ∧
    (∀ j v hi, j < q.slab.size → rd q.slab j = .used v hi → hi < q.heap.size ∧ (rd q.heap hi).slab = j) ∧
    (∀ k, 0 < k → k < q.heap.size → ¬ (rd q.heap k).lt (rd q.heap ((k - 1) / 2))) := by
  intro q
  have i : HInv q := HInv.new.runOps ops
  exact ⟨i.x.fwd, i.x.bwd, i.o⟩

/-- **heap_root_is_a_least_entry** — after every history the first item of the heap array (what `pull`, `peek` and
`peek_key` read) is not above any other item: no item has a smaller key, or the same key and a smaller epoch. -/
theorem heap_root_is_a_least_entry (ops : List HOp) :
    let q := HQ.new.runOps ops
    ∀ k, k < q.heap.size → ¬ (rd q.heap k).lt (rd q.heap 0) := by
  intro q k hk
  exact (HInv.new.runOps ops).o.root_le k hk

/-- **heap_code_refines_the_keyed_queue** — run any history on the transliterated code (M-HEAP) and on the mid-level
model `IPQ` the theorems of C20.3 / C20.4 are about: the two states have the same slab layout (same free list, same
epochs, every used node standing for the same key, epoch and value), and every operation then gives the same answer:
the same raw insert key, the same pulled / peeked entry, the same result of an extraction through any key. -/
theorem heap_code_refines_the_keyed_queue (ops : List HOp) :
    let q := HQ.new.runOps ops
    let m := IPQ.new.runOps (ops.map HOp.toIOp)
    Abs q m ∧
    (∀ k v, (q.insert k v).2 = (m.insert k v).2) ∧ q.pull.2 = m.pull.2 ∧
    (∀ i e, (q.extract i e).2 = (m.extract i e).2) ∧ q.peek = m.peek ∧ q.peekKey = m.peekKey ∧ q.err = m.err := by
  intro q m
  have s : Sim q m := Sim.new.runOps ops
  exact ⟨s.abs, fun k v => (s.abs.insert s.inv k v).2, (s.abs.pull s.inv s.distinct).2,
    fun i e => (s.abs.extract s.inv i e).2, (s.abs.peek s.inv s.distinct).1, (s.abs.peek s.inv s.distinct).2,
    s.abs.er.symm⟩

/-- **keyed_queue_never_panics** — in every reachable state the free list is a proper list (no node twice) of free
nodes inside the slab, so `insert` never finds a used node or an index outside the slab at its head; together with the
cross-index invariant (no access of `pull`, `extract` or the loops is out of range or hits the wrong kind of node):
no history of inserts, pulls and extractions — with any keys, live, stale or forged — makes the queue panic, in the
mid-level model and, by the refinement, in the transliterated code. -/
theorem keyed_queue_never_panics (ops : List HOp) :
    (IPQ.new.runOps (ops.map HOp.toIOp)).err = false ∧ (HQ.new.runOps ops).err = false := by
  have h := PQ.never_panics_aux (ops.map HOp.toIOp) IPQ.new PQ.freeOK_new rfl
  exact ⟨h, by rw [← (Sim.new.runOps ops).abs.er]; exact h⟩

/-- **sift_loops_keep_every_other_entry** — `sift_up` (`sift_down`) started with a vacant spot and the item kept
aside changes what no slab node stands for, except the node of that item, which then stands for the item's key and
epoch: the loops lose, duplicate or mix up no entry, wherever they stop. -/
theorem sift_loops_keep_every_other_entry (h : Array HItem) (s : Array SNode) (item : HItem) (i : Nat)
    (x : Cross h s i item.slab) (j : Nat) (hj : j < s.size) :
    cont (siftUp h s item i).1 (siftUp h s item i).2 j = (if j = item.slab then ownNode s item else cont h s j) ∧
    cont (siftDown h s item i).1 (siftDown h s item i).2 j = (if j = item.slab then ownNode s item else cont h s j) :=
  ⟨siftUp_cont h s item i x j hj, siftDown_cont h s item i x j hj⟩

-- non-vacuity of the hypothesis of `sift_loops_keep_every_other_entry`: the state `insert` starts `sift_up` from
example : Cross #[default] #[.used 7 0] 0 (⟨3, 0, 0⟩ : HItem).slab :=
  ⟨fun k hk kn => by simp at hk; omega, fun j v hi hj hu jn => by simp at hj jn; omega,
    ⟨by simp, 7, 0, by simp [rd]⟩, by simp⟩

end NexoVerif.Heap
