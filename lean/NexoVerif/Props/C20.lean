/-
C20 — Priority queues: stable minimum extraction and non-aliasing keys.

Property theorems only; helper lemmas are in Lemmas/PQLemmas.lean.  Every statement is for every
reachable queue / every operation history — no bound on length, keys or values.
-/
import NexoVerif.Model.PQ
import NexoVerif.Lemmas.PQLemmas

namespace NexoVerif.PQ
set_option linter.unusedSimpArgs false
set_option linter.unusedVariables false

/-! ## C20.1  `Item::cmp` — the heap order is the reversed lexicographic order on (key, epoch) -/

/-- **item_cmp_reversed_lex** — `a ≥ b` for the max-heap iff `(a.key, a.epoch) ≤ (b.key, b.epoch)`; the order is
total, so with pairwise distinct epochs the heap's maximum is unique. -/
theorem item_cmp_reversed_lex (a b : Item) :
    a.geHeap b = a.lexLe b ∧ (a.lexLe b = true ∨ b.lexLe a = true) ∧
    (a.lexLe b = true → b.lexLe a = true → a.key = b.key ∧ a.epoch = b.epoch) := by
  refine ⟨geHeap_iff_lexLe a b, lexLe_total a b, ?_⟩
  intro h1 h2
  rw [lexLe_iff] at h1 h2
  omega

/-! ## C20.2  PriorityQueue: pull yields the smallest key, the earliest inserted among equal keys -/

/-- **pq_inv** — every queue reachable from `new` by insert/pull keeps its epochs strictly increasing in
insertion order and below `nextEpoch` (so all epochs are distinct and "smaller epoch" = "inserted earlier"). -/
theorem pq_inv (ops : List (Option (Nat × Nat))) :
    (ops.foldl (fun q op => match op with | some (k, v) => q.insert k v | none => q.pull.1) PQ.new).Inv := by
  suffices h : ∀ (q : PQ), q.Inv →
      (ops.foldl (fun q op => match op with | some (k, v) => q.insert k v | none => q.pull.1) q).Inv from
    h _ pq_inv_new
  induction ops with
  | nil => intro q h; exact h
  | cons op ops ih =>
    intro q h
    simp only [List.foldl_cons]
    apply ih
    cases op with
    | none => exact pq_inv_pull q h
    | some kv => exact pq_inv_insert q kv.1 kv.2 h

/-- **pq_pull_min** — `pull` returns an entry `m` of the queue with `(m.key, m.epoch)` ≤ that of every queued entry,
removes exactly that entry, and `peek` announces the same pair. -/
theorem pq_pull_min (q : PQ) :
    match q.pull with
    | (q', none)        => q.heap = [] ∧ q' = q ∧ q.peek = none
    | (q', some (k, v)) => ∃ m ∈ q.heap, (k, v) = (m.key, m.val) ∧ (∀ x ∈ q.heap, m.lexLe x = true) ∧
                            q'.heap = q.heap.erase m ∧ q'.nextEpoch = q.nextEpoch ∧ q.peek = some (k, v) := by
  unfold PQ.pull PQ.peek
  cases hm : maxItem q.heap with
  | none => simp [(maxItem_none _).mp hm]
  | some m =>
    obtain ⟨h1, h2⟩ := maxItem_spec _ _ hm
    exact ⟨m, h1, rfl, h2, rfl, rfl, rfl⟩

/-- **pq_fifo_among_equal_keys** — in a reachable queue, the pulled entry was inserted before every other queued
entry with the same key (strictly smaller epoch, and epochs grow with insertion order). -/
theorem pq_fifo_among_equal_keys (q : PQ) (hq : q.Inv) (m : Item) (hm : maxItem q.heap = some m) :
    ∀ x ∈ q.heap, x ≠ m → x.key = m.key → m.epoch < x.epoch := by
  obtain ⟨h1, h2⟩ := maxItem_spec _ _ hm
  intro x hx hne hk
  have hle := h2 x hx
  rw [lexLe_iff] at hle
  have hdist : x.epoch ≠ m.epoch := by
    intro he
    -- equal epochs in a list whose epochs are pairwise strictly increasing ⇒ same element
    have hnd : ∀ (l : List Item), l.Pairwise (fun a b => a.epoch < b.epoch) →
        ∀ a ∈ l, ∀ b ∈ l, a.epoch = b.epoch → a = b := by
      intro l
      induction l with
      | nil => intro _ a ha; simp at ha
      | cons c r ih =>
        intro hp a ha b hb hab
        have hpc := List.pairwise_cons.mp hp
        simp at ha hb
        rcases ha with rfl | ha <;> rcases hb with rfl | hb
        · rfl
        · have := hpc.1 b hb; omega
        · have := hpc.1 a ha; omega
        · exact ih hpc.2 a ha b hb hab
    exact hne (hnd q.heap hq.1 x hx m h1 he)
  omega

/-- **pq_refines_stable_sorted_list** — the queue behaves as the list kept sorted by key with *stable* insertion
(`sortedOf` replays the insertions): insert = stable ordered insertion, pull = remove the head.  This is the
specification M-SCHED uses for the scheduler queue. -/
theorem pq_refines_stable_sorted_list (q : PQ) (hq : q.Inv) :
    (∀ k v, sortedOf (q.insert k v).heap = insStable (sortedOf q.heap) { key := k, epoch := q.nextEpoch, val := v }) ∧
    (match q.pull with
     | (q', none)        => sortedOf q.heap = []
     | (q', some (k, v)) => ∃ m, sortedOf q.heap = m :: sortedOf q'.heap ∧ (k, v) = (m.key, m.val)) := by
  constructor
  · intro k v
    simp [sortedOf, PQ.insert, List.foldl_append]
  · unfold PQ.pull
    cases hm : maxItem q.heap with
    | none => simp [(maxItem_none _).mp hm, sortedOf]
    | some m => exact ⟨m, pull_refines_aux q.heap m hq.1 hm, rfl⟩

/-! ## C20.3  IndexedPriorityQueue: minimum extraction -/

/-- **ipq_pull_min** — `pull`/`peek`/`peek_key` of the keyed queue designate a used node whose `(key, epoch)` is ≤ that
of every used node (so, epochs being issued in increasing order, the first inserted among equal keys). -/
theorem ipq_pull_min (q : IPQ) :
    match q.pull with
    | (_, none)        => (∀ (i : Nat) (it : Item), q.slab[i]? ≠ some (Node.used it)) ∨ minUsed q.slab 0 = none
    | (q', some (k, v)) => ∃ i m, q.slab[i]? = some (Node.used m) ∧ (k, v) = (m.key, m.val) ∧
        (∀ (j : Nat) (it : Item), q.slab[j]? = some (Node.used it) → m.lexLe it = true) ∧
        q.peek = some (k, v) ∧ q.peekKey = some k ∧ q'.slab = q.slab.set i (Node.free q.firstFree) := by
  unfold IPQ.pull IPQ.peek IPQ.peekKey
  cases hm : minUsed q.slab 0 with
  | none => simp
  | some p =>
    obtain ⟨i, m⟩ := p
    obtain ⟨_, h2, h3⟩ := minUsed_spec q.slab 0 i m hm
    exact ⟨i, m, by simpa using h2, rfl, h3, rfl, rfl, rfl⟩

/-! ## C20.4  non-aliasing keys -/

/-- **key_no_alias** — the key `(i, e)` returned by `insert k v` never designates another entry: after *any*
further history of inserts, pulls and extractions (slot `i` may have been freed and reused any number of
times), `extract (i, e)` returns either nothing or exactly `(k, v)`. -/
theorem key_no_alias (q : IPQ) (hb : EpochsBelow q) (k v : Nat) (hne : (q.insert k v).1.err = false)
    (ops : List IOp) (r : Nat × Nat)
    (hx : (((q.insert k v).1.runOps ops).extract (q.insert k v).2.1 (q.insert k v).2.2).2 = some r) :
    r = (k, v) := by
  have hown := owns_runOps _ ops _ _ k v (owns_after_insert q k v hb hne)
  generalize (q.insert k v).1.runOps ops = q2 at hown hx
  generalize (q.insert k v).2.1 = i at hown hx
  generalize (q.insert k v).2.2 = e at hown hx
  unfold IPQ.extract at hx
  split at hx
  · rename_i it hs
    split at hx
    · simp at hx
    · rename_i he
      simp at he
      obtain ⟨_, hit⟩ := hown.2 i it hs he
      simp at hx
      subst hit
      exact hx.symm
  · simp at hx

/-- **key_finds_own_entry** — conversely, while the entry is still queued its key extracts it. -/
theorem key_finds_own_entry (q : IPQ) (i : Nat) (it : Item) (h : q.slab[i]? = some (Node.used it)) :
    (q.extract i it.epoch).2 = some (it.key, it.val) ∧
    (q.extract i it.epoch).1.slab[i]? = some (Node.free q.firstFree) := by
  unfold IPQ.extract
  simp [h]
  have : i < q.slab.length := by
    rcases Nat.lt_or_ge i q.slab.length with hlt | hge
    · exact hlt
    · rw [List.getElem?_eq_none hge] at h; simp at h
  simp [this]

/-- **stale_key_rejected** — a key whose epoch differs from the epoch stored in its slot (the slot was reused), or
whose slot is free or out of range, extracts nothing and leaves the queue unchanged. -/
theorem stale_key_rejected (q : IPQ) (i e : Nat)
    (h : ∀ it, q.slab[i]? = some (Node.used it) → it.epoch ≠ e) : q.extract i e = (q, none) := by
  unfold IPQ.extract
  split
  · rename_i it hs
    have := h it hs
    simp [this]
  · rfl

/-- **epochs_below_reachable** — the hypothesis of `key_no_alias` holds in every reachable state. -/
theorem epochs_below_reachable (ops : List IOp) : EpochsBelow (IPQ.new.runOps ops) := by
  suffices h : ∀ q, EpochsBelow q → EpochsBelow (q.runOps ops) from
    h _ (by intro j it hj; simp [IPQ.new] at hj)
  induction ops with
  | nil => intro q h; exact h
  | cons op ops ih => intro q h; exact ih _ (epochsBelow_step q op h)

/-! ## non-vacuity -/

example : (PQ.new.insert 5 1 |>.insert 2 2 |>.insert 2 3 |>.pull).2 = some (2, 2) := by decide
example : (((IPQ.new.insert 5 1).1.runOps [.pull, .ins 7 9]).extract 0 0).2 = none ∧
          (((IPQ.new.insert 5 1).1.runOps [.pull, .ins 7 9]).extract 0 1).2 = some (7, 9) := by
  constructor <;> decide
example : (IPQ.new.insert 5 1).1.err = false := by decide

end NexoVerif.PQ
