/-
C06 — Deadlock and message-loss detection is exact.

Theorems about M-NET (Model/Net.lean).  `St.count` is the in-flight message counter of the executor (incremented
by every completed push, decremented by every pop); `report` is what `Simulation::run` derives from it and from the
observers of the mailboxes registered with the simulation (`simBoxes`).  Everything holds in every state reachable
by any interleaving, for every program and capacity.
-/
import NexoVerif.Lemmas.NetInit
import NexoVerif.Lemmas.PoolLive
import NexoVerif.Extracted

namespace NexoVerif.Net
set_option linter.unusedSimpArgs false
set_option linter.unusedVariables false

/-- **counter_is_number_queued** — the in-flight counter always equals the total number of messages sitting in
mailboxes (`boxes`: any duplicate-free list containing every mailbox that ever received a message). -/
theorem counter_is_number_queued (P : Prog) {s : St} (h : Reach P s) (boxes : List Nat) (hn : boxes.Nodup)
    (hc : ∀ x ∈ s.arrLog, x.1 ∈ boxes) :
    s.count = ((boxes.map (fun m => (s.mbox m).length)).sum : Nat) :=
  count_eq_queued (reach_inv P h) boxes hn hc

/-- **no_false_report** — a run in which every message that arrived was processed is reported `ok`: never as a
deadlock, never as a message loss, on any schedule. -/
theorem no_false_report (P : Prog) {s : St} (h : Reach P s) (simBoxes : List Nat) (hf : s.fault = none)
    (hall : ∀ m, handledBy s m = arrivals s m) : report P s simBoxes = .ok := by
  have i := reach_inv P h
  have hempty : ∀ m, s.mbox m = [] := by
    intro m
    have := i.fifo m
    rw [hall m] at this
    have h2 := congrArg List.length this
    simp at h2
    exact h2
  have : s.count = 0 := (count_zero_iff i).mpr hempty
  simp [report, hf, this]

/-- **ok_only_when_nothing_queued** — conversely, `ok` is reported only when no mailbox holds a message. -/
theorem ok_only_when_nothing_queued (P : Prog) {s : St} (h : Reach P s) (simBoxes : List Nat)
    (hr : report P s simBoxes = .ok) (m : Nat) : s.mbox m = [] := by
  have i := reach_inv P h
  have hcnt : s.count = 0 := by
    unfold report at hr
    split at hr
    · simp at hr
    · simp at hr
    · simp at hr
    · by_cases hc : s.count = 0
      · exact hc
      · rw [if_neg hc] at hr
        simp only at hr
        split at hr <;> simp at hr
  exact (count_zero_iff i).mp hcnt m

/-- **deadlock_report_is_exact** — when messages are left and at least one sits in a mailbox of the simulation, the
report is `Deadlock` and lists exactly the simulation's models with a non-empty mailbox, each with its exact number
of queued messages, in registration order. -/
theorem deadlock_report_is_exact (P : Prog) (s : St) (simBoxes : List Nat) (hf : s.fault = none)
    (hcnt : s.count ≠ 0) (hsome : ∃ m ∈ simBoxes, s.mbox m ≠ []) :
    report P s simBoxes =
      .deadlock ((simBoxes.filter (fun m => (s.mbox m).length ≠ 0)).map (fun m => (m, (s.mbox m).length))) := by
  obtain ⟨m, hm, hne⟩ := hsome
  have : ((simBoxes.filter (fun m => (s.mbox m).length ≠ 0)).map (fun m => (m, (s.mbox m).length))).isEmpty = false := by
    rw [Bool.eq_false_iff]
    intro he
    rw [List.isEmpty_iff] at he
    simp only [List.map_eq_nil_iff, List.filter_eq_nil_iff] at he
    have := he m hm
    simp at this
    exact hne this
  simp only [report, hf, hcnt, if_false, this]
  simp

/-- **message_loss_report_is_exact** — when messages are left and none of them sits in a mailbox of the simulation,
the report is `MessageLoss(n)` with `n` the exact number of queued messages — all of them, therefore, in mailboxes
that were never added to the simulation. -/
theorem message_loss_report_is_exact (P : Prog) {s : St} (h : Reach P s) (simBoxes others : List Nat)
    (hf : s.fault = none) (hcnt : s.count ≠ 0) (hnone : ∀ m ∈ simBoxes, s.mbox m = [])
    (hn : (simBoxes ++ others).Nodup) (hc : ∀ x ∈ s.arrLog, x.1 ∈ simBoxes ++ others) :
    report P s simBoxes = .messageLoss ((others.map (fun m => (s.mbox m).length)).sum) := by
  have hq := count_eq_queued (reach_inv P h) (simBoxes ++ others) hn hc
  have hz : (simBoxes.map (fun m => (s.mbox m).length)).sum = 0 :=
    sum_map_zero _ _ (fun m hm => by simp [hnone m hm])
  simp only [List.map_append, List.sum_append, hz, Nat.zero_add] at hq
  have he : ((simBoxes.filter (fun m => (s.mbox m).length ≠ 0)).map (fun m => (m, (s.mbox m).length))).isEmpty = true := by
    rw [List.isEmpty_iff]
    simp only [List.map_eq_nil_iff, List.filter_eq_nil_iff]
    intro m hm; simp [hnone m hm]
  simp only [report, hf, hcnt, if_false, he, if_true]
  rw [hq]; simp

/-- **report_kinds_are_exclusive** — without a fault the report is `ok`, `Deadlock` or `MessageLoss`, and which one
is decided by the queued messages alone (never by the schedule that led there). -/
theorem report_kinds_are_exclusive (P : Prog) (s : St) (simBoxes : List Nat) (hf : s.fault = none) :
    (report P s simBoxes = .ok ↔ s.count = 0) ∧
    ((∃ l, report P s simBoxes = .deadlock l) ↔ (s.count ≠ 0 ∧ ∃ m ∈ simBoxes, s.mbox m ≠ [])) := by
  constructor
  · constructor
    · intro hr
      unfold report at hr
      rw [hf] at hr
      simp only at hr
      split at hr
      · assumption
      · split at hr <;> simp at hr
    · intro hc; simp [report, hf, hc]
  · constructor
    · rintro ⟨l, hr⟩
      unfold report at hr
      rw [hf] at hr
      simp only at hr
      split at hr
      · simp at hr
      · rename_i hc
        refine ⟨hc, ?_⟩
        split at hr
        · simp at hr
        · rename_i hne
          rw [List.isEmpty_iff] at hne
          simp only [List.map_eq_nil_iff, List.filter_eq_nil_iff] at hne
          simp at hne
          obtain ⟨m, hm, hx⟩ := hne
          exact ⟨m, hm, hx⟩
    · rintro ⟨hc, hm⟩
      exact ⟨_, deadlock_report_is_exact P s simBoxes hf hc hm⟩

/-- non-vacuity: a reachable state with one queued message in a simulation mailbox is reported as a deadlock of
that model with 1 message -/
example : ∃ s, Reach exProg s ∧ report exProg s [0, 1] = .deadlock [(1, 1)] := by
  cases hfin : runLabels exProg (exLabels.take 5) St.init with
  | none => exact absurd hfin (by decide)
  | some s1 =>
    refine ⟨s1, reach_runLabels exProg _ Reach.init hfin, ?_⟩
    have : (runLabels exProg (exLabels.take 5) St.init).map (fun s => report exProg s [0, 1]) = some (.deadlock [(1, 1)]) := by
      decide
    rw [hfin] at this; simpa using this

end NexoVerif.Net

/-! ## The count `run()` reads (M-POOL)

`report` above starts from the executor's in-flight count.  In the multi-threaded executor that count is kept per
worker thread and published to a shared atomic; `Executor::run` reads the shared atomic as soon as it sees the pool
idle.  M-POOL (Model/Pool.lean) is the idle-detection protocol at the granularity of its atomic steps, for any number
of workers and every interleaving; whether a worker publishes its count before or after it can be seen as inactive is
read from the source on every run. -/
namespace NexoVerif.Pool

/-- read from `run_local_worker`: the thread-local count is published at the top of the worker loop, before
`try_set_worker_inactive`, and nowhere else -/
def publishesFirst : Bool :=
  Extracted.poolWorkerLoopHead.head? == some "update_msg_count" && Extracted.poolWorkerFlushes == 1

/-- **worker_loop_shape** — the order of the protocol calls at the top of the worker loop and in `Executor::run`, and
what the pool manager's operations do to `active_workers`, read from the source on every run: they are the step
structure of M-POOL (`flush`, `deact`, park / `lastCheck`, `lastClear`, `lastUnpark`, park / search; `mRun`, `mCheck`,
read of the count, `mPark`). -/
theorem worker_loop_shape :
    Extracted.poolWorkerLoopHead = ["update_msg_count", "try_set_worker_inactive", "park", "injector.is_empty",
      "set_all_workers_inactive", "unpark_executor", "park", "begin_worker_search"] ∧
    Extracted.poolRunShape = ["activate_worker", "loop", "pool_is_idle", "read_count", "return_unprocessed",
      "return_ok", "park", "park_timeout"] ∧
    Extracted.poolDeactKeepsLast = true ∧ Extracted.poolClearsAll = true ∧ Extracted.poolIdleIsZero = true ∧
    Extracted.poolActivateSetsBitThenUnparks = true ∧ Extracted.poolSizeAtLeastOne = true ∧
    publishesFirst = true := by decide

/-- **count_read_by_run_is_exact** — in every execution of the protocol as the source has it, with any number of
workers, when `run()` sees the pool idle the count it reads is the sum of every change made by every task so far:
nothing is still local to a worker thread. -/
theorem count_read_by_run_is_exact {n : Nat} {s s' : St} (hr : Reach n publishesFirst s)
    (hs : step .mCheck s = some s') : s'.result = some s.total := by
  have : publishesFirst = true := by decide
  rw [this] at hr
  exact count_read_is_exact hr hs

/-- **late_publication_loses_a_count** — the code as found published the count after `try_set_worker_inactive`; the
model then has a run (two workers) in which `run()` reads 0 while one message is in flight.  This is the defect
repaired by the `fix:` commit 13cb01f; the schedule is `lateSchedule`. -/
theorem count_published_late_is_lost :
    (runLabels lateSchedule (St.init 2 false)).map (fun s => (s.result, s.total, s.tl 1)) = some (some 0, 1, 1) :=
  late_publication_loses_a_count

-- the hypotheses are satisfiable: a whole run with two workers in which a task sends a message and `run()` reads 1
def okSchedule : List Label :=
  [ .flush 0, .flush 1, .deact 0, .deact 1, .lastCheck 1, .lastClear 1, .lastUnpark 1, .mPark, .mCheck,
    .mSpawn 1, .mRun 0, .mCheckFail, .wake 0, .takeInj 0 1, .pop 0, .finishTask 0 0 1, .idleLoop 0, .giveUp 0,
    .flush 0, .deact 0, .lastCheck 0, .lastClear 0, .lastUnpark 0, .mPark ]

example : ∃ s s', Reach 2 true s ∧ step .mCheck s = some s' ∧ s'.result = some 1 := by
  have key : ((runLabels okSchedule (St.init 2 true)).bind (step .mCheck)).map (·.result) = some (some 1) := by decide
  cases hrun : runLabels okSchedule (St.init 2 true) with
  | none => rw [hrun] at key; cases key
  | some s =>
    rw [hrun] at key
    cases hst : step .mCheck s with
    | none => simp [hst] at key
    | some s' =>
      refine ⟨s, s', runLabels_reach _ _ _ Reach.init hrun, hst, ?_⟩
      simpa [hst] using key

end NexoVerif.Pool
