/-
C06 — Deadlock and message-loss detection is exact.

Theorems about M-NET (Model/Net.lean).  `St.count` is the in-flight message counter of the executor (incremented
by every completed push, decremented by every pop); `report` is what `Simulation::run` derives from it and from the
observers of the mailboxes registered with the simulation (`simBoxes`).  Everything holds in every state reachable
by any interleaving, for every program and capacity.
-/
import NexoVerif.Lemmas.NetInit

namespace NexoVerif.Net
set_option linter.unusedSimpArgs false
set_option linter.unusedVariables false

/-- **counter_is_number_queued** — the in-flight counter always equals the total number of messages sitting in
mailboxes (`boxes`: any duplicate-free list containing every mailbox that ever received a message). -/
theorem counter_is_number_queued (P : Prog) {s : St} (h : Reach P s) (boxes : List Nat) (hn : boxes.Nodup)
    (hc : ∀ x ∈ s.arrLog, x.1 ∈ boxes) :
    s.count = ((boxes.map (fun m => (s.mbox m).length)).sum : Nat) :=
  count_eq_queued (reach_inv P h) boxes hn hc

/-- **no_false_report** — a run in which every message that arrived was processed is reported `ok`: never as a
deadlock, never as a message loss, on any schedule. -/
theorem no_false_report (P : Prog) {s : St} (h : Reach P s) (simBoxes : List Nat) (hf : s.fault = none)
    (hall : ∀ m, handledBy s m = arrivals s m) : report P s simBoxes = .ok := by
  have i := reach_inv P h
  have hempty : ∀ m, s.mbox m = [] := by
    intro m
    have := i.fifo m
    rw [hall m] at this
    have h2 := congrArg List.length this
    simp at h2
    exact h2
  have : s.count = 0 := (count_zero_iff i).mpr hempty
  simp [report, hf, this]

/-- **ok_only_when_nothing_queued** — conversely, `ok` is reported only when no mailbox holds a message. -/
theorem ok_only_when_nothing_queued (P : Prog) {s : St} (h : Reach P s) (simBoxes : List Nat)
    (hr : report P s simBoxes = .ok) (m : Nat) : s.mbox m = [] := by
  have i := reach_inv P h
  have hcnt : s.count = 0 := by
    unfold report at hr
    split at hr
    · simp at hr
    · simp at hr
    · simp at hr
    · by_cases hc : s.count = 0
      · exact hc
      · rw [if_neg hc] at hr
        simp only at hr
        split at hr <;> simp at hr
  exact (count_zero_iff i).mp hcnt m

/-- **deadlock_report_is_exact** — when messages are left and at least one sits in a mailbox of the simulation, the
report is `Deadlock` and lists exactly the simulation's models with a non-empty mailbox, each with its exact number
of queued messages, in registration order. -/
theorem deadlock_report_is_exact (P : Prog) (s : St) (simBoxes : List Nat) (hf : s.fault = none)
    (hcnt : s.count ≠ 0) (hsome : ∃ m ∈ simBoxes, s.mbox m ≠ []) :
    report P s simBoxes =
      .deadlock ((simBoxes.filter (fun m => (s.mbox m).length ≠ 0)).map (fun m => (m, (s.mbox m).length))) := by
  obtain ⟨m, hm, hne⟩ := hsome
  have : ((simBoxes.filter (fun m => (s.mbox m).length ≠ 0)).map (fun m => (m, (s.mbox m).length))).isEmpty = false := by
    rw [Bool.eq_false_iff]
    intro he
    rw [List.isEmpty_iff] at he
    simp only [List.map_eq_nil_iff, List.filter_eq_nil_iff] at he
    have := he m hm
    simp at this
    exact hne this
  simp only [report, hf, hcnt, if_false, this]
  simp

/-- **message_loss_report_is_exact** — when messages are left and none of them sits in a mailbox of the simulation,
the report is `MessageLoss(n)` with `n` the exact number of queued messages — all of them, therefore, in mailboxes
that were never added to the simulation. -/
theorem message_loss_report_is_exact (P : Prog) {s : St} (h : Reach P s) (simBoxes others : List Nat)
    (hf : s.fault = none) (hcnt : s.count ≠ 0) (hnone : ∀ m ∈ simBoxes, s.mbox m = [])
    (hn : (simBoxes ++ others).Nodup) (hc : ∀ x ∈ s.arrLog, x.1 ∈ simBoxes ++ others) :
    report P s simBoxes = .messageLoss ((others.map (fun m => (s.mbox m).length)).sum) := by
  have hq := count_eq_queued (reach_inv P h) (simBoxes ++ others) hn hc
  have hz : (simBoxes.map (fun m => (s.mbox m).length)).sum = 0 :=
    sum_map_zero _ _ (fun m hm => by simp [hnone m hm])
  simp only [List.map_append, List.sum_append, hz, Nat.zero_add] at hq
  have he : ((simBoxes.filter (fun m => (s.mbox m).length ≠ 0)).map (fun m => (m, (s.mbox m).length))).isEmpty = true := by
    rw [List.isEmpty_iff]
    simp only [List.map_eq_nil_iff, List.filter_eq_nil_iff]
    intro m hm; simp [hnone m hm]
  simp only [report, hf, hcnt, if_false, he, if_true]
  rw [hq]; simp

/-- **report_kinds_are_exclusive** — without a fault the report is `ok`, `Deadlock` or `MessageLoss`, and which one
is decided by the queued messages alone (never by the schedule that led there). -/
theorem report_kinds_are_exclusive (P : Prog) (s : St) (simBoxes : List Nat) (hf : s.fault = none) :
    (report P s simBoxes = .ok ↔ s.count = 0) ∧
    ((∃ l, report P s simBoxes = .deadlock l) ↔ (s.count ≠ 0 ∧ ∃ m ∈ simBoxes, s.mbox m ≠ [])) := by
  constructor
  · constructor
    · intro hr
      unfold report at hr
      rw [hf] at hr
      simp only at hr
      split at hr
      · assumption
      · split at hr <;> simp at hr
    · intro hc; simp [report, hf, hc]
  · constructor
    · rintro ⟨l, hr⟩
      unfold report at hr
      rw [hf] at hr
      simp only at hr
      split at hr
      · simp at hr
      · rename_i hc
        refine ⟨hc, ?_⟩
        split at hr
        · simp at hr
        · rename_i hne
          rw [List.isEmpty_iff] at hne
          simp only [List.map_eq_nil_iff, List.filter_eq_nil_iff] at hne
          simp at hne
          obtain ⟨m, hm, hx⟩ := hne
          exact ⟨m, hm, hx⟩
    · rintro ⟨hc, hm⟩
      exact ⟨_, deadlock_report_is_exact P s simBoxes hf hc hm⟩

/-- non-vacuity: a reachable state with one queued message in a simulation mailbox is reported as a deadlock of
that model with 1 message -/
example : ∃ s, Reach exProg s ∧ report exProg s [0, 1] = .deadlock [(1, 1)] := by
  cases hfin : runLabels exProg (exLabels.take 5) St.init with
  | none => exact absurd hfin (by decide)
  | some s1 =>
    refine ⟨s1, reach_runLabels exProg _ Reach.init hfin, ?_⟩
    have : (runLabels exProg (exLabels.take 5) St.init).map (fun s => report exProg s [0, 1]) = some (.deadlock [(1, 1)]) := by
      decide
    rw [hfin] at this; simpa using this

end NexoVerif.Net
