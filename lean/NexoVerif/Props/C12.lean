/-
C12 — Mailbox = bounded, lossless, linearizable MPSC FIFO without lost wake-ups.

Theorems about M-QUEUE (Model/Queue.lean).  L0: position arithmetic for every capacity ≥ 1 (power of two or
not).  L1: every *sequential* history of push / pop / release (drop of the `MessageBorrow`) / close on the
transliterated queue behaves exactly like the bounded FIFO `Spec` — no bound on the history.  L2 (M-QUEUE-C): any
number of producers interleaved at atomic-step granularity.  L3 (M-CHAN): the sender / receiver notification protocol
of `channel.rs` on top of the queue — no lost wake-up.  All sequentially consistent; weak-memory effects are outside
(the orderings of the queue's atomic operations are pinned by `queue_program_shape`).
-/
import NexoVerif.Lemmas.QueueRefine
import NexoVerif.Lemmas.QueueCThm
import NexoVerif.Lemmas.ChanThm
import NexoVerif.Extracted

namespace NexoVerif.Queue
set_option linter.unusedSimpArgs false
set_option linter.unusedVariables false

/-! ## L0 — position arithmetic -/

/-- **next_pos_is_successor** — `next_queue_pos` maps the encoding of the n-th position to the encoding of the (n+1)-th,
for every capacity ≥ 1: indices stay below the capacity and the sequence count is bumped on wrap-around. -/
theorem next_pos_is_successor (q : Q) (hc : 0 < q.cap) (n : Nat) :
    q.nextPos (enc q.cap q.M n) = enc q.cap q.M (n + 1) ∧ enc q.cap q.M n % q.M = n % q.cap ∧
    enc q.cap q.M n % q.M < q.cap := by
  have hM : q.cap < q.M := by have : q.cap ≤ q.C := nextPow2_ge q.cap; unfold Q.M; omega
  refine ⟨nextPos_enc q hc n, enc_mod q.cap q.M hc hM n, ?_⟩
  rw [enc_mod q.cap q.M hc hM n]; exact Nat.mod_lt _ hc

/-- **closed_flag_is_disjoint** — the closed flag never collides with a position: an encoded position has the flag
clear, and setting it (`+ C`) is recognised by `is_closed`. -/
theorem closed_flag_is_disjoint (q : Q) (hc : 0 < q.cap) (n : Nat) :
    q.isClosedPos (enc q.cap q.M n) = false ∧ q.isClosedPos (enc q.cap q.M n + q.C) = true :=
  enc_not_closed q hc n

/-- **positions_strictly_increase** — encoded positions are strictly increasing in the operation count, and a full lap
adds exactly `right_mask + 1` (what `MessageBorrow::drop` adds to the stamp). -/
theorem positions_strictly_increase (q : Q) (hc : 0 < q.cap) (a b : Nat) (h : a < b) :
    enc q.cap q.M a < enc q.cap q.M b ∧ enc q.cap q.M (a + q.cap) = enc q.cap q.M a + q.M := by
  have hM : q.cap < q.M := by have : q.cap ≤ q.C := nextPow2_ge q.cap; unfold Q.M; omega
  exact ⟨enc_strict q.cap q.M hc hM h, enc_add_cap q.cap q.M hc hM a⟩

/-! ## L1 — the sequential queue is the bounded FIFO -/

/-- responses of a history -/
inductive Resp | push (r : PushRes) | pop (r : PopRes) | unit
deriving DecidableEq, Repr

def Q.resp (q : Q) : Op → Resp
  | .push v => .push (q.push v).2 | .pop => .pop q.pop.2 | _ => .unit
def Spec.resp (s : Spec) : Op → Resp
  | .push v => .push (s.push v).2 | .pop => .pop s.pop.2 | _ => .unit

def Q.run (q : Q) : List Op → List Resp
  | [] => []
  | op :: ops => q.resp op :: Q.run (q.step op) ops
def Spec.run (s : Spec) : List Op → List Resp
  | [] => []
  | op :: ops => s.resp op :: Spec.run (s.step op) ops

/-- one operation: same response, invariant kept, abstraction commutes -/
theorem step_refines (q : Q) (g : G) (h : Inv q g) (op : Op) :
    q.resp op = (abs q g).resp op ∧ ∃ g', Inv (q.step op) g' ∧ abs (q.step op) g' = (abs q g).step op := by
  cases op with
  | push v =>
    have := push_refines q g h v
    exact ⟨by simp [Q.resp, Spec.resp, this.1], this.2⟩
  | pop =>
    have := pop_refines q g h
    exact ⟨by simp [Q.resp, Spec.resp, this.1], this.2⟩
  | release => exact ⟨rfl, _, (release_refines q g h).1, (release_refines q g h).2⟩
  | close => exact ⟨rfl, _, (close_refines q g h).1, (close_refines q g h).2⟩

/-- **seq_refines** — for every capacity ≥ 1 and every sequential history of push / pop / release / close, the queue of
`queue.rs` answers exactly like the bounded FIFO specification: `Full` iff `capacity` messages are held or
borrowed, messages come out in push order, each exactly once, `Closed` only after the last accepted message was
popped, pushes fail after `close`. -/
theorem seq_refines (cap : Nat) (hc : 0 < cap) (ops : List Op) :
    (Q.new cap).run ops = (Spec.new cap).run ops := by
  suffices H : ∀ (q : Q) (g : G), Inv q g → q.run ops = (abs q g).run ops by
    have := H (Q.new cap) ⟨0, 0, false, false, []⟩ (inv_new cap hc)
    simpa [abs, Spec.new, Q.new] using this
  induction ops with
  | nil => intro q g h; rfl
  | cons op ops ih =>
    intro q g h
    obtain ⟨h1, g', h2, h3⟩ := step_refines q g h op
    simp only [Q.run, Spec.run]
    rw [h1, ih (q.step op) g' h2, h3]

/-- **len_is_number_held** — in every state reachable by a sequential history, `len()` equals pushes − pops, i.e. the
number of messages held (whenever no receive is in flight, that is the number of messages in the mailbox). -/
theorem len_is_number_held (q : Q) (g : G) (h : Inv q g) : q.len = g.items.length := by
  rw [len_eq q g h, h.nitems]

/-! ## the specification has the stated properties -/

/-- **spec_bounded** — the specification never holds more than `cap` messages (held + borrowed). -/
theorem spec_bounded (s : Spec) (ops : List Op) (h : s.items.length + s.borrowed.toNat ≤ s.cap) :
    (ops.foldl Spec.step s).items.length + (ops.foldl Spec.step s).borrowed.toNat ≤ (ops.foldl Spec.step s).cap := by
  induction ops generalizing s with
  | nil => exact h
  | cons op ops ih =>
    apply ih
    cases op with
    | push v =>
      simp only [Spec.step, Spec.push]
      split
      · exact h
      · split
        · simp; omega
        · exact h
    | pop =>
      simp only [Spec.step, Spec.pop]
      split
      · exact h
      · split
        · rename_i v r hi
          simp [hi] at h ⊢
          cases hb : s.borrowed <;> simp [hb] at h ⊢ <;> omega
        · exact h
    | release => simp only [Spec.step, Spec.release]; simp; omega
    | close => exact h

/-- **spec_fifo_lossless** — `pop` returns the oldest held message and removes exactly it; an accepted `push` appends
exactly its message; after `close` pushes are refused while held messages remain poppable, and `Closed` is
reported only when nothing is held. -/
theorem spec_fifo_lossless (s : Spec) (v : Nat) :
    (s.borrowed = false → ∀ x r, s.items = x :: r → s.pop = ({ s with items := r, borrowed := true }, .some x)) ∧
    ((s.push v).2 = .ok → (s.push v).1.items = s.items ++ [v]) ∧
    (s.closed = true → s.push v = (s, .closed)) ∧
    (s.pop.2 = .closed → s.items = [] ∧ s.closed = true) := by
  refine ⟨?_, ?_, ?_, ?_⟩
  · intro hb x r hi; simp [Spec.pop, hb, hi]
  · unfold Spec.push; split
    · simp
    · split <;> simp
  · intro hc; simp [Spec.push, hc]
  · unfold Spec.pop; split
    · simp
    · split
      · simp
      · split <;> simp_all

/-! ## non-vacuity -/
example : (Q.new 3).run [.push 1, .push 2, .push 3, .push 4, .pop, .push 5, .release, .push 5, .close, .pop] =
    [.push .ok, .push .ok, .push .ok, .push .full, .pop (.some 1), .push .full, .unit, .push .ok, .unit, .pop (.some 2)] := by
  decide

end NexoVerif.Queue

/-! ## L2 — concurrent producers at the granularity of the atomic operations (M-QUEUE-C)

Any number of producers and the consumer, every interleaving of their atomic steps (load of `enqueue_pos`, load of
the slot's stamp, compare-and-swap, write of the message, store of the stamp; load of the stamp, read, advance of
`dequeue_pos`; release of the slot; close), sequentially consistent.  Positions are logical here; their encoding in
machine words is the first part of this file. -/
namespace NexoVerif.CQ
set_option linter.unusedSimpArgs false
set_option linter.unusedVariables false

/-- a loaded enqueue position is never ahead of the real one -/
theorem loaded_pos_le {cap : Nat} {s : St} (h : Reach cap s) :
    ∀ i v p, (s.prod i = .gotPos v p → p ≤ s.e) ∧ (∀ st, s.prod i = .gotStamp v p st → p ≤ s.e) := by
  induction h with
  | init => intro i v p; simp
  | @step s0 s1 l hr hs ih =>
    have key : ∀ (sx : St) (j w : Nat), (∀ i v p, (sx.prod i = .gotPos v p → p ≤ sx.e) ∧ (∀ st, sx.prod i = .gotStamp v p st → p ≤ sx.e)) →
        ∀ i v p, ((loadPos sx j w).prod i = .gotPos v p → p ≤ (loadPos sx j w).e) ∧
          (∀ st, (loadPos sx j w).prod i = .gotStamp v p st → p ≤ (loadPos sx j w).e) := by
      intro sx j w hx i v p
      unfold loadPos
      split
      · by_cases hij : i = j
        · subst hij; simp
        · simp only [upd_other _ _ hij]; exact hx i v p
      · by_cases hij : i = j
        · subst hij; simp; intro _ h; omega
        · simp only [upd_other _ _ hij]; exact hx i v p
    cases l with
    | pBegin j w =>
      simp only [step] at hs
      split at hs
      · simp only [Option.some.injEq] at hs; subst hs; exact key s0 j w ih
      · simp at hs
    | pLoadStamp j =>
      simp only [step] at hs
      split at hs
      · rename_i w q hpc
        simp only [Option.some.injEq] at hs; subst hs
        intro i v p
        by_cases hij : i = j
        · subst hij; simp; intro _ h; subst h; exact (ih i w q).1 hpc
        · simp only [upd_other _ _ hij]; exact ih i v p
      · simp at hs
    | pDecide j =>
      simp only [step] at hs
      split at hs
      · split at hs
        · split at hs
          · simp only [Option.some.injEq] at hs; subst hs
            intro i v p
            by_cases hij : i = j
            · subst hij; simp
            · simp only [upd_other _ _ hij]
              obtain ⟨a, b⟩ := ih i v p
              exact ⟨fun h => by have := a h; omega, fun st h => by have := b st h; omega⟩
          · simp only [Option.some.injEq] at hs; subst hs; exact key s0 j _ ih
        · split at hs
          · simp only [Option.some.injEq] at hs; subst hs
            intro i v p
            by_cases hij : i = j
            · subst hij; simp
            · simp only [upd_other _ _ hij]; exact ih i v p
          · simp only [Option.some.injEq] at hs; subst hs; exact key s0 j _ ih
      · simp at hs
    | pWrite j =>
      simp only [step] at hs
      split at hs
      · simp only [Option.some.injEq] at hs; subst hs
        intro i v p
        by_cases hij : i = j
        · subst hij; simp
        · simp only [upd_other _ _ hij]; exact ih i v p
      · simp at hs
    | pPublish j =>
      simp only [step] at hs
      split at hs
      · simp only [Option.some.injEq] at hs; subst hs
        intro i v p
        by_cases hij : i = j
        · subst hij; simp
        · simp only [upd_other _ _ hij]; exact ih i v p
      · simp at hs
    | cPop =>
      simp only [step] at hs
      split at hs
      · split at hs
        · simp only [Option.some.injEq] at hs; subst hs; exact ih
        · split at hs <;> (simp only [Option.some.injEq] at hs; subst hs; exact ih)
      · simp at hs
    | cRelease =>
      simp only [step] at hs
      split at hs
      · simp only [Option.some.injEq] at hs; subst hs; exact ih
      · simp at hs
    | close => simp only [step, Option.some.injEq] at hs; subst hs; exact ih

/-- **never_more_than_capacity** — under every interleaving of any number of producers with the consumer: the number
of positions claimed and not yet released never exceeds the capacity. -/
theorem never_more_than_capacity {cap : Nat} (hc : 0 < cap) {s : St} (h : Reach cap s) :
    s.dRel ≤ s.d ∧ s.d ≤ s.e ∧ s.e - s.dRel ≤ s.cap := by
  have i := reach_inv hc h
  exact ⟨dRel_le s i, i.de, by have := i.bound; omega⟩

/-- **received_in_claim_order_exactly_once** — the messages returned by `pop` are exactly the messages of positions
0, 1, …, d − 1, in that order: each accepted message is received exactly once, in the order in which the producers'
compare-and-swap operations succeeded; nothing is duplicated, lost in between, or torn. -/
theorem received_in_claim_order_exactly_once {cap : Nat} (hc : 0 < cap) {s : St} (h : Reach cap s) :
    s.popped = (s.claims.take s.d).map (·.2) ∧ s.claims.length = s.e := ⟨(reach_inv hc h).pops, (reach_inv hc h).clen⟩

/-- **each_producer_in_its_own_order** — for every producer, the values of its pushes that returned `Ok`, in program
order, followed by the one it is in the middle of publishing, are exactly the values of the positions it claimed, in
position order: the consumer therefore receives the messages of each producer in the order they were sent. -/
theorem each_producer_in_its_own_order {cap : Nat} {s : St} (h : Reach cap s) (i : Nat) :
    acceptedOf s i ++ inflight s i = claimedOf s i := reach_pinv h i

/-- **full_only_when_full** — `push` answers `Full` only if, when it loaded the stamp of its slot, as many positions
were claimed and not released as the queue has slots. -/
theorem full_only_when_full {cap : Nat} (hc : 0 < cap) {s : St} (h : Reach cap s) (i v p : Nat)
    (hp : s.prod i = .gotPos v p) (hst : s.stamp (p % s.cap) < 2 * p) : s.e = s.dRel + s.cap := by
  have inv := reach_inv hc h
  have hpe := (loaded_pos_le h i v p).1 hp
  have hslot : p % s.cap < s.cap := Nat.mod_lt _ inv.capPos
  have hpar : ∃ p', s.stamp (p % s.cap) = 2 * p' ∨ s.stamp (p % s.cap) = 2 * p' + 1 := ⟨s.stamp (p % s.cap) / 2, by omega⟩
  obtain ⟨p', hp' | hp'⟩ := hpar
  · obtain ⟨b1, b2, b3⟩ := inv.even _ p' hslot hp'
    have := cong_gap inv.capPos (by omega : p' < p) b1
    have := inv.bound
    omega
  · obtain ⟨b1, b2, b3, _⟩ := inv.odd _ p' hslot hp'
    have := cong_gap inv.capPos (by omega : p' < p) b1
    have := inv.bound
    omega

/-- **closed_only_when_drained** — `pop` reports `Closed` only when the queue is closed and every claimed position has
been received: messages accepted before the close remain receivable; and a `push` that starts after the close fails. -/
theorem closed_only_when_drained {cap : Nat} (hc : 0 < cap) {s : St} (h : Reach cap s) :
    (s.popClosed = true → s.closed = true ∧ s.d = s.e) ∧
    (∀ i v s', s.closed = true → step (.pBegin i v) s = some s' → s'.prod i = .idle ∧ s'.results = s.results ++ [(i, v, .closed)] ∧ s'.e = s.e) := by
  refine ⟨(reach_inv hc h).popClosed, ?_⟩
  intro i v s' hcl hs
  simp only [step] at hs
  split at hs
  · simp only [Option.some.injEq] at hs; subst hs
    simp [loadPos, hcl]
  · simp at hs

/-- **a_pop_reads_a_published_slot** — when `pop` finds the stamp of its slot different from its position, the slot
holds the completely written message of exactly that position (the `debug_assert` of the source), and no producer
is writing into it. -/
theorem a_pop_reads_a_published_slot {cap : Nat} (hc : 0 < cap) {s : St} (h : Reach cap s) (hidle : s.cons = .idle)
    (hne : s.stamp (s.d % s.cap) ≠ 2 * s.d) :
    s.stamp (s.d % s.cap) = 2 * s.d + 1 ∧ s.d < s.e ∧ (∃ pr, s.claims[s.d]? = some (pr, s.val (s.d % s.cap))) ∧
    ∀ i v p, (s.prod i = .claimed v p ∨ s.prod i = .wrote v p) → p % s.cap ≠ s.d % s.cap := by
  have inv := reach_inv hc h
  have hdrel : s.dRel = s.d := by unfold St.dRel; rw [hidle]
  have hslot : s.d % s.cap < s.cap := Nat.mod_lt _ inv.capPos
  have hfilled : s.stamp (s.d % s.cap) = 2 * s.d + 1 ∧ s.d < s.e ∧ ∃ pr, s.claims[s.d]? = some (pr, s.val (s.d % s.cap)) := by
    have hpar : ∃ p', s.stamp (s.d % s.cap) = 2 * p' ∨ s.stamp (s.d % s.cap) = 2 * p' + 1 :=
      ⟨s.stamp (s.d % s.cap) / 2, by omega⟩
    obtain ⟨p', hp' | hp'⟩ := hpar
    · obtain ⟨b1, b2, b3⟩ := inv.even _ p' hslot hp'
      rw [hdrel] at b2 b3
      have : s.d = p' := cong_eq inv.capPos b3 b2 b1.symm
      subst this; exact absurd hp' hne
    · obtain ⟨b1, b2, b3, pr, b4⟩ := inv.odd _ p' hslot hp'
      rw [hdrel] at b3
      have hlt : p' < s.d + s.cap := by have := inv.bound; rw [hdrel] at this; omega
      have : s.d = p' := cong_eq inv.capPos b3 hlt b1.symm
      subst this; exact ⟨hp', b2, pr, b4⟩
  refine ⟨hfilled.1, hfilled.2.1, hfilled.2.2, ?_⟩
  intro i v p hpc heq
  rcases hpc with hpc | hpc
  · have := (inv.claimed i v p hpc).2.1; rw [heq] at this; omega
  · have := (inv.wrote i v p hpc).2.1; rw [heq] at this; omega

/-! non-vacuity: two producers and the consumer interleaved on a queue of capacity 1 -/
example :
    let ls : List Label := [.pBegin 0 7, .pBegin 1 8, .pLoadStamp 0, .pLoadStamp 1, .pDecide 1, .pDecide 0, .pWrite 1,
      .pLoadStamp 0, .pDecide 0, .pPublish 1, .cPop, .pBegin 0 7, .pLoadStamp 0, .pDecide 0, .cRelease, .pBegin 0 7,
      .pLoadStamp 0, .pDecide 0, .pWrite 0, .pPublish 0, .cPop]
    (ls.foldlM (fun s l => step l s) ({ cap := 1 } : St)).map (fun s => (s.popped, s.results.map (·.2.2))) =
      some ([8, 7], [.full, .ok, .full, .ok]) := by decide

/-- **queue_program_shape** — the order of the atomic operations in `push`, `pop`, `MessageBorrow::drop` and `close`,
read from the source on every run: it is the step structure of M-QUEUE-C (position load, stamp load with Acquire,
compare-and-swap, stamp store with Release, position reload; stamp load with Acquire, position store, position load;
stamp store with Release; fetch_or). -/
theorem queue_program_shape :
    Extracted.queuePush = [.load "enqueue_pos" .relaxed, .load "stamp" .acquire,
      .cas "enqueue_pos" .relaxed .relaxed, .store "stamp" .release, .load "enqueue_pos" .relaxed] ∧
    Extracted.queuePop = [.load "dequeue_pos" .relaxed, .load "stamp" .acquire,
      .store "dequeue_pos" .relaxed, .load "enqueue_pos" .relaxed] ∧
    Extracted.queueRelease = [.store "stamp" .release] ∧
    Extracted.queueClose = [.rmw "enqueue_pos" "fetch_or" .relaxed] := by decide

end NexoVerif.CQ

/-! ## L3 — no lost wake-up (M-CHAN)

`Sender::send` waits on an `async_event::Event` with `queue.push` as the predicate and notifies the receiver's
`DiatomicWaker` after a successful push; `Receiver::recv` waits on the `DiatomicWaker` with `queue.pop` as the
predicate, drops the popped message (which frees its slot) and calls `notify_one` on the `Event`.  M-CHAN has any
number of senders, the lock-protected operations of the wait set as atomic steps, spurious polls, cancellation of a
pending send at any moment (the future is dropped: its notifier is cancelled and a notification it had already
received is passed on), and every interleaving.  The queue is the two counters that M-QUEUE-C justifies (Full exactly when full, Empty exactly when
empty). -/
namespace NexoVerif.Chan

/-- read from `channel.rs`: the receiver notifies a sender after *every* pop -/
def notifiesAlways : Bool := Extracted.chanRecvNotifiesAfterEveryPop

/-- **channel_protocol_shape** — what M-CHAN takes from the source, read on every run: the predicates of the two waits,
the unconditional `notify_one` after the popped message is dropped and before the handler is awaited, the receiver
notification after a successful push, the types of the two signals, `Receiver::drop` (close, then `notify_all`), and the versions of the two signalling crates
whose protocol M-CHAN models from their source. -/
theorem channel_protocol_shape :
    Extracted.chanRecvWaitsOnPop = true ∧ Extracted.chanRecvNotifiesAfterEveryPop = true ∧
    Extracted.chanSendWaitsOnPush = true ∧ Extracted.chanSendNotifiesReceiver = true ∧
    Extracted.chanSignalTypes = true ∧ Extracted.chanReceiverDropClosesThenNotifiesAll = true ∧
    Extracted.chanSignalCrates = ["async-event 0.2.1", "diatomic-waker 0.2.3"] := by decide

/-- **no_sender_or_receiver_sleeps_through_a_wakeup** — for any number of senders and every interleaving: in every
reachable state in which nothing is in progress (every sender idle or asleep in the wait set, the receiver asleep with
its waker registered or busy elsewhere), a sender sleeps only while the mailbox is full and the receiver sleeps only
while it is empty. -/
theorem no_sender_or_receiver_sleeps_through_a_wakeup {n cap : Nat} {s : St} (hr : Reach n cap notifiesAlways s)
    (hq : Quiescent s) : (∀ i, Sleeping s i → s.occ = s.cap) ∧ (RSleeping s → s.msgs = 0) := by
  have : notifiesAlways = true := by decide
  rw [this] at hr
  exact no_lost_wakeup hr hq

/-- **a_wakeup_is_always_on_its_way** — in *every* reachable state: while a sender sleeps and a slot is free, the
receiver is about to notify, or the thread that closed the mailbox is about to `notify_all`, or some sender outside the
wait set is about to look at the queue again (or to pass its notification on) — and that sender has a step; while the receiver sleeps and a message is queued, the sender that
pushed it is about to notify the receiver. -/
theorem a_wakeup_is_always_on_its_way {n cap : Nat} {s : St} (hr : Reach n cap notifiesAlways s) :
    ((∃ i, Sleeping s i) → s.occ < s.cap →
      s.rpc = .notify ∨ s.cpc = true ∨ ∃ j, j < s.n ∧ s.inset j = false ∧
        (s.spc j = .rm ∨ s.spc j = .try1 ∨ s.spc j = .try2 ∨ s.spc j = .cancel ∨ s.spc j = .pending ∨
          s.spc j = .cancelErr) ∧
        ∃ l, (step l s).isSome = true) ∧
    (RSleeping s → 0 < s.msgs → ∃ j, j < s.n ∧ (s.spc j = .cancel ∨ s.spc j = .notifyRecv)) := by
  have : notifiesAlways = true := by decide
  rw [this] at hr
  have h := wakeup_in_flight hr
  refine ⟨fun hsl hroom => ?_, h.2⟩
  rcases h.1 hsl hroom with e | e | ⟨j, hj, hb, hp⟩
  · exact Or.inl e
  · exact Or.inr (Or.inl e)
  · exact Or.inr (Or.inr ⟨j, hj, hb, hp, holder_can_move j hj hb hp⟩)

/-- **mailbox_counters_stay_consistent** — never more occupied slots than the capacity, and the poppable messages
plus the one the receiver may be holding never exceed the occupied slots. -/
theorem mailbox_counters_stay_consistent {n cap : Nat} {s : St} (hr : Reach n cap notifiesAlways s) :
    s.occ ≤ s.cap ∧ s.msgs + rborrow s ≤ s.occ := by
  have : notifiesAlways = true := by decide
  rw [this] at hr
  exact ⟨(reach_inv hr).occLe, (reach_inv hr).msgsLe⟩

/-- **notifying_only_when_leaving_full_loses_a_wakeup** — the rule "notify a sender only if the pop left the full
state" is not enough: capacity 2, four senders, a 26-step run ends with nothing in progress, a sender asleep in the
wait set and a free slot (by evaluation). -/
theorem notifying_only_when_leaving_full_loses_a_wakeup :
    (runLabels lostSchedule (St.init 4 2 false)).map
      (fun s => (quiescentB s, s.spc 3 == .pending && s.inset 3, s.occ, s.cap)) = some (true, true, 1, 2) :=
  notify_only_when_leaving_full_loses_a_wakeup

/-- **closing_the_mailbox_wakes_every_sender** — the owner of a mailbox may drop it while the receiver is not receiving
(`Receiver::drop`: close the queue, then `notify_all`).  Once both have happened no sender sleeps any more — a sender
that looks at the queue finds it closed and its send fails — and when nothing is in progress every send has returned. -/
theorem closing_the_mailbox_wakes_every_sender {n cap : Nat} {s : St} (hr : Reach n cap notifiesAlways s)
    (hcl : s.closed = true) (hcp : s.cpc = false) :
    (∀ i, ¬ Sleeping s i) ∧ (Quiescent s → ∀ i, i < s.n → s.spc i = .idle) := by
  have : notifiesAlways = true := by decide
  rw [this] at hr
  exact closing_wakes_every_sender hr hcl hcp

-- non-vacuity: two senders asleep on a full mailbox of capacity 1; the mailbox is dropped; both wake up and fail
example : (runLabels [.sBegin 0, .sTry1 0, .sNotify 0, .sBegin 1, .sTry1 1, .sInsert 1, .sTry2 1, .sBegin 2, .sTry1 2,
      .sInsert 2, .sTry2 2, .closeQ, .closeNotify, .sRepoll 1, .sRemove 1, .sTry1Closed 1, .sRepoll 2, .sRemove 2,
      .sTry1Closed 2] (St.init 3 1 true)).map
    (fun s => (s.closed, quiescentB s, s.spc 1 == .idle, s.spc 2 == .idle, s.occ)) = some (true, true, true, true, 1) := by
  decide

-- non-vacuity: a reachable state with nothing in progress and a sender asleep (the mailbox is full)
example : ∃ s, Reach 2 1 true s ∧ Quiescent s ∧ Sleeping s 1 ∧ s.occ = s.cap := by
  let ls : List Label := [.sBegin 0, .sTry1 0, .sNotify 0, .sBegin 1, .sTry1 1, .sInsert 1, .sTry2 1]
  have key : (runLabels ls (St.init 2 1 true)).map
      (fun s => (quiescentB s, s.spc 1 == .pending && s.inset 1, s.occ, s.cap, s.n)) = some (true, true, 1, 1, 2) := by
    decide
  cases hrun : runLabels ls (St.init 2 1 true) with
  | none => rw [hrun] at key; cases key
  | some s =>
    rw [hrun] at key
    simp only [Option.map_some, Option.some.injEq, Prod.mk.injEq] at key
    obtain ⟨hq, hsl, ho, hc, hn⟩ := key
    refine ⟨s, runLabels_reach _ _ _ Reach.init hrun, ?_, ?_, by omega⟩
    · simp only [quiescentB, Bool.and_eq_true, List.all_eq_true, List.mem_range, Bool.or_eq_true, beq_iff_eq] at hq
      exact ⟨fun i hi => by simpa using hq.1.1 i hi, by simpa using hq.1.2, by simpa using hq.2⟩
    · simp only [Bool.and_eq_true, beq_iff_eq] at hsl
      exact ⟨by omega, hsl.1, hsl.2⟩

end NexoVerif.Chan
