/-
C12 — Mailbox = bounded, lossless, linearizable MPSC FIFO without lost wake-ups.

Theorems about M-QUEUE (Model/Queue.lean).  L0: position arithmetic for every capacity ≥ 1 (power of two or
not).  L1: every *sequential* history of push / pop / release (drop of the `MessageBorrow`) / close on the
transliterated queue behaves exactly like the bounded FIFO `Spec` — no bound on the history.  The concurrent
levels (L2: interleaved producers at atomic-step granularity; L3: sender/receiver notification) are *not*
proved here: they are covered by the correspondence only (real-thread runs with per-producer sequence
numbers and a closer thread; blocked-sender scenarios of the `net` engine) — see DESIGN.md.
-/
import NexoVerif.Lemmas.QueueRefine

namespace NexoVerif.Queue
set_option linter.unusedSimpArgs false
set_option linter.unusedVariables false

/-! ## L0 — position arithmetic -/

/-- **next_pos_is_successor** — `next_queue_pos` maps the encoding of the n-th position to the encoding of the (n+1)-th,
for every capacity ≥ 1: indices stay below the capacity and the sequence count is bumped on wrap-around. -/
theorem next_pos_is_successor (q : Q) (hc : 0 < q.cap) (n : Nat) :
    q.nextPos (enc q.cap q.M n) = enc q.cap q.M (n + 1) ∧ enc q.cap q.M n % q.M = n % q.cap ∧
    enc q.cap q.M n % q.M < q.cap := by
  have hM : q.cap < q.M := by have : q.cap ≤ q.C := nextPow2_ge q.cap; unfold Q.M; omega
  refine ⟨nextPos_enc q hc n, enc_mod q.cap q.M hc hM n, ?_⟩
  rw [enc_mod q.cap q.M hc hM n]; exact Nat.mod_lt _ hc

/-- **closed_flag_is_disjoint** — the closed flag never collides with a position: an encoded position has the flag
clear, and setting it (`+ C`) is recognised by `is_closed`. -/
theorem closed_flag_is_disjoint (q : Q) (hc : 0 < q.cap) (n : Nat) :
    q.isClosedPos (enc q.cap q.M n) = false ∧ q.isClosedPos (enc q.cap q.M n + q.C) = true :=
  enc_not_closed q hc n

/-- **positions_strictly_increase** — encoded positions are strictly increasing in the operation count, and a full lap
adds exactly `right_mask + 1` (what `MessageBorrow::drop` adds to the stamp). -/
theorem positions_strictly_increase (q : Q) (hc : 0 < q.cap) (a b : Nat) (h : a < b) :
    enc q.cap q.M a < enc q.cap q.M b ∧ enc q.cap q.M (a + q.cap) = enc q.cap q.M a + q.M := by
  have hM : q.cap < q.M := by have : q.cap ≤ q.C := nextPow2_ge q.cap; unfold Q.M; omega
  exact ⟨enc_strict q.cap q.M hc hM h, enc_add_cap q.cap q.M hc hM a⟩

/-! ## L1 — the sequential queue is the bounded FIFO -/

/-- responses of a history -/
inductive Resp | push (r : PushRes) | pop (r : PopRes) | unit
deriving DecidableEq, Repr

def Q.resp (q : Q) : Op → Resp
  | .push v => .push (q.push v).2 | .pop => .pop q.pop.2 | _ => .unit
def Spec.resp (s : Spec) : Op → Resp
  | .push v => .push (s.push v).2 | .pop => .pop s.pop.2 | _ => .unit

def Q.run (q : Q) : List Op → List Resp
  | [] => []
  | op :: ops => q.resp op :: Q.run (q.step op) ops
def Spec.run (s : Spec) : List Op → List Resp
  | [] => []
  | op :: ops => s.resp op :: Spec.run (s.step op) ops

/-- one operation: same response, invariant kept, abstraction commutes -/
theorem step_refines (q : Q) (g : G) (h : Inv q g) (op : Op) :
    q.resp op = (abs q g).resp op ∧ ∃ g', Inv (q.step op) g' ∧ abs (q.step op) g' = (abs q g).step op := by
  cases op with
  | push v =>
    have := push_refines q g h v
    exact ⟨by simp [Q.resp, Spec.resp, this.1], this.2⟩
  | pop =>
    have := pop_refines q g h
    exact ⟨by simp [Q.resp, Spec.resp, this.1], this.2⟩
  | release => exact ⟨rfl, _, (release_refines q g h).1, (release_refines q g h).2⟩
  | close => exact ⟨rfl, _, (close_refines q g h).1, (close_refines q g h).2⟩

/-- **seq_refines** — for every capacity ≥ 1 and every sequential history of push / pop / release / close, the queue of
`queue.rs` answers exactly like the bounded FIFO specification: `Full` iff `capacity` messages are held or
borrowed, messages come out in push order, each exactly once, `Closed` only after the last accepted message was
popped, pushes fail after `close`. -/
theorem seq_refines (cap : Nat) (hc : 0 < cap) (ops : List Op) :
    (Q.new cap).run ops = (Spec.new cap).run ops := by
  suffices H : ∀ (q : Q) (g : G), Inv q g → q.run ops = (abs q g).run ops by
    have := H (Q.new cap) ⟨0, 0, false, false, []⟩ (inv_new cap hc)
    simpa [abs, Spec.new, Q.new] using this
  induction ops with
  | nil => intro q g h; rfl
  | cons op ops ih =>
    intro q g h
    obtain ⟨h1, g', h2, h3⟩ := step_refines q g h op
    simp only [Q.run, Spec.run]
    rw [h1, ih (q.step op) g' h2, h3]

/-- **len_is_number_held** — in every state reachable by a sequential history, `len()` equals pushes − pops, i.e. the
number of messages held (whenever no receive is in flight, that is the number of messages in the mailbox). -/
theorem len_is_number_held (q : Q) (g : G) (h : Inv q g) : q.len = g.items.length := by
  rw [len_eq q g h, h.nitems]

/-! ## the specification has the stated properties -/

/-- **spec_bounded** — the specification never holds more than `cap` messages (held + borrowed). -/
theorem spec_bounded (s : Spec) (ops : List Op) (h : s.items.length + s.borrowed.toNat ≤ s.cap) :
    (ops.foldl Spec.step s).items.length + (ops.foldl Spec.step s).borrowed.toNat ≤ (ops.foldl Spec.step s).cap := by
  induction ops generalizing s with
  | nil => exact h
  | cons op ops ih =>
    apply ih
    cases op with
    | push v =>
      simp only [Spec.step, Spec.push]
      split
      · exact h
      · split
        · simp; omega
        · exact h
    | pop =>
      simp only [Spec.step, Spec.pop]
      split
      · exact h
      · split
        · rename_i v r hi
          simp [hi] at h ⊢
          cases hb : s.borrowed <;> simp [hb] at h ⊢ <;> omega
        · exact h
    | release => simp only [Spec.step, Spec.release]; simp; omega
    | close => exact h

/-- **spec_fifo_lossless** — `pop` returns the oldest held message and removes exactly it; an accepted `push` appends
exactly its message; after `close` pushes are refused while held messages remain poppable, and `Closed` is
reported only when nothing is held. -/
theorem spec_fifo_lossless (s : Spec) (v : Nat) :
    (s.borrowed = false → ∀ x r, s.items = x :: r → s.pop = ({ s with items := r, borrowed := true }, .some x)) ∧
    ((s.push v).2 = .ok → (s.push v).1.items = s.items ++ [v]) ∧
    (s.closed = true → s.push v = (s, .closed)) ∧
    (s.pop.2 = .closed → s.items = [] ∧ s.closed = true) := by
  refine ⟨?_, ?_, ?_, ?_⟩
  · intro hb x r hi; simp [Spec.pop, hb, hi]
  · unfold Spec.push; split
    · simp
    · split <;> simp
  · intro hc; simp [Spec.push, hc]
  · unfold Spec.pop; split
    · simp
    · split
      · simp
      · split <;> simp_all

/-! ## non-vacuity -/
example : (Q.new 3).run [.push 1, .push 2, .push 3, .push 4, .pop, .push 5, .release, .push 5, .close, .pop] =
    [.push .ok, .push .ok, .push .ok, .push .full, .pop (.some 1), .push .full, .unit, .push .ok, .unit, .pop (.some 2)] := by
  decide

end NexoVerif.Queue
