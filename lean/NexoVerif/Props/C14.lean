/-
C14 — Query replies: one per replier, matched, ordered; port clones share links.

Theorems about M-BCAST (Model/Bcast.lean): the query broadcaster with its `BroadcastFuture` and task set, driven
by an arbitrary environment — replies become available in any order and at any moment, sub-task wakers are
invoked at any moment (with or without a reply, including stale wakers of an earlier, cancelled broadcast), the
broadcast is polled at any moment, dropped at any moment, its reply iterator consumed partially — and the cached
read-write lock through which port clones share their connection list.  No bound on the number of repliers or on
the length of the history.  Task-set operations are atomic in M-BCAST; that they can be taken as atomic — no wake-up of a
sub-task is lost, the parent is notified after the requested number of wake-ups — is proved over M-TSET
(Model/TSet.lean: the Treiber stack of `util/task_set.rs` at the granularity of its atomic operations, any number of
concurrent wakers), at the end of this file.
-/
import NexoVerif.Lemmas.BcastLive
import NexoVerif.Lemmas.BcastLock
import NexoVerif.Lemmas.TSetOwnerThm
import NexoVerif.Extracted

namespace NexoVerif.Bcast
set_option linter.unusedSimpArgs false
set_option linter.unusedVariables false

/-- **one_reply_per_accepting_replier_in_connection_order** — whenever a poll of the broadcast returns `Ready`, in any
reachable state: the reply list has exactly one entry per connection whose filter accepted the request, in
connection order (truncated to the number of replies the caller reads), and the entry of connection `c` is a value
that was consumed from replier `c` *during this broadcast* — never a stale value of an earlier query, never a value
of another replier.  Since a reply can only be consumed after it was made available, `Ready` is returned only after
all accepting repliers have replied. -/
theorem one_reply_per_accepting_replier_in_connection_order {s : St} (h : Reach s)
    (vals : List (Option Nat)) (hp : (poll s).2 = .ready vals) :
    ∃ f, s.fut = some f ∧ ∃ full : List Nat,
      full.length = (accepted s.senders s.bcArg).length ∧
      vals = (full.map some).take f.consume ∧
      (∀ i c v : Nat, (accepted s.senders s.bcArg)[i]? = some c → full[i]? = some v → (c, v) ∈ (poll s).1.got) := by
  obtain ⟨_, _, _, hr⟩ := poll_spec s (reach_wf h)
  obtain ⟨f, hf, ⟨full, h1, h2, h3⟩, _⟩ := hr vals hp
  exact ⟨f, hf, full, h1, h2, h3⟩

/-- **replies_come_from_the_repliers** — every value consumed by a broadcast was made available by that very replier
(`handed` is the log of all `(connection, reply)` pairs ever produced), and a `Ready` poll never finds an empty
reply slot (the `unwrap` in the reply iterator cannot panic). -/
theorem replies_come_from_the_repliers {s : St} (h : Reach s) :
    (∀ x, x ∈ s.got → x ∈ s.handed) ∧
    (∀ vals, (poll s).2 = .ready vals → ∀ x ∈ vals, x ≠ none) := by
  refine ⟨(reach_wf h).core.2.2.2, ?_⟩
  intro vals hp x hx hnone
  obtain ⟨_, _, full, _, h2, _⟩ := one_reply_per_accepting_replier_in_connection_order h vals hp
  rw [h2] at hx
  have := List.mem_of_mem_take hx
  simp at this
  obtain ⟨a, _, rfl⟩ := this
  simp at hnone

/-- **request_is_mapped_per_connection** — the filter and the map of a connection are applied per connection: the
accepting connections are exactly those whose filter holds for the request. -/
theorem request_is_mapped_per_connection (senders : List Sender) (arg c : Nat) :
    c ∈ accepted senders arg ↔ ∃ sd, senders[c]? = some sd ∧ sd.accepts arg = true := by
  unfold accepted
  simp only [List.mem_filter, List.mem_range]
  constructor
  · rintro ⟨hlt, hm⟩
    cases hsd : senders[c]? with
    | none => rw [hsd] at hm; simp at hm
    | some sd => rw [hsd] at hm; exact ⟨sd, rfl, hm⟩
  · rintro ⟨sd, hsd, ha⟩
    refine ⟨?_, by rw [hsd]; exact ha⟩
    rcases Nat.lt_or_ge c senders.length with h | h
    · exact h
    · rw [List.getElem?_eq_none h] at hsd; simp at hsd

/-- **pending_broadcast_is_woken_by_any_sub_task** — when a poll of a `BroadcastFuture` returns `Pending`, the task set is
empty, the countdown is armed and the caller's waker is registered; the next wake-up of any sub-task then notifies
the caller exactly once and is remembered until the next poll (so however completions and spurious wake-ups
interleave, the broadcast is polled again and looks at every woken sub-task). -/
theorem pending_broadcast_is_woken_by_any_sub_task (subs : List Nat) (consume : Nat) (s : St) (pending : Nat)
    (h : (loopPoll subs consume 2 s pending).2 = .pending) (i : Nat) :
    let s' := (loopPoll subs consume 2 s pending).1
    (taskWake s' i).outerWakes = s'.outerWakes + 1 ∧ i ∈ (taskWake s' i).stack ∧
    ∀ j, i ∈ (taskWake (taskWake s' i) j).stack := by
  intro s'
  obtain ⟨a, b, c⟩ := loopPoll_pending_armed subs consume s pending h
  obtain ⟨d, e, _⟩ := armed_wake_notifies s' i a b c
  exact ⟨d, e, fun j => scheduled_wake_is_remembered _ i j e⟩

/-- **broadcast_completes_once_all_have_replied** — "it returns … however the repliers' completions and wake-ups
interleave": in every reachable state with a `BroadcastFuture` in flight, if each sub-future whose reply slot is still
empty has its reply available and has been woken since (its task is scheduled), the next poll returns `Ready` — no
matter in which order the replies arrived, how many spurious or stale wake-ups happened, or how often the broadcast
was polled in between.  And a broadcast whose accepting repliers all have their reply ready when it is first polled
completes at that first poll. -/
theorem broadcast_completes_once_all_have_replied {s : St} (h : Reach s) :
    (∀ subs pending consume, s.fut = some (.multi subs pending false consume) →
      (∀ i c, subs[i]? = some c → (s.outputs[i]?).join = none → i ∈ s.stack ∧ SlotReady s c) →
      ∃ vals, (poll s).2 = .ready vals) ∧
    (∀ arg consume, s.fut = some (.lazy arg consume) → (∀ c ∈ accepted s.senders arg, SlotReady s c) →
      ∃ vals, (poll s).2 = .ready vals) :=
  ⟨fun subs pending consume hf hall => completes_when_all_replied s (reach_wf h) subs pending consume hf hall,
   fun arg consume hf hall => first_poll_completes_when_all_ready s arg consume hf hall⟩

/-- **every_reachable_state_is_well_formed** — the bookkeeping invariant behind the theorems above, for every
history: the pending count equals the number of empty reply slots among the sub-futures, every filled slot holds a
value consumed from its own connection, the task count matches the number of sub-futures, and the sub-futures are
exactly the accepting connections. -/
theorem every_reachable_state_is_well_formed {s : St} (h : Reach s) : WF s := reach_wf h

/-- **clones_share_one_connection_list** — the cached read-write lock: after any history of writes and reads through
any clones (and of cloning), a read through *any* clone returns the shared value, i.e. every connection added so
far through any clone. -/
theorem clones_share_one_connection_list (ops : List LOp) (c : Nat) (hc : c < (lrun ops).clones.length) :
    (lstep (lrun ops) (.read c)).2 = some (lrun ops).shared := by
  have inv := linv_run ops
  have hget : (lrun ops).clones[c]? = some ((lrun ops).clones[c]) := List.getElem?_eq_getElem hc
  have hmem0 : (lrun ops).clones[c] ∈ (lrun ops).clones := List.getElem_mem hc
  generalize (lrun ops).clones[c] = cl at hget hmem0
  obtain ⟨v, e⟩ := cl
  simp only [lstep, hget]
  have hmem : (v, e) ∈ (lrun ops).clones := hmem0
  by_cases he : e = (lrun ops).sepoch
  · simp [he, inv.fresh v e hmem he]
  · simp [he]

/-- **source_bumps_the_shared_epoch** — the rule the lock theorems rest on, read from the source on every run:
`CachedRwLock::write` takes the mutex and stores *shared epoch + 1* (the model's `writePush`). -/
theorem source_bumps_the_shared_epoch : Extracted.lockWriteBumpsSharedEpoch = true := by decide

/-- **a_connection_is_never_forgotten** — a write appends to the shared list and nothing ever removes from it: a
connection added at any point is returned by every later read through any clone. -/
theorem a_connection_is_never_forgotten (ops1 ops2 : List LOp) (c v c' : Nat)
    (hc : c < (lrun ops1).clones.length)
    (hc' : c' < (lrun (ops1 ++ [.writePush c v] ++ ops2)).clones.length) :
    ∃ r, (lstep (lrun (ops1 ++ [.writePush c v] ++ ops2)) (.read c')).2 = some r ∧ v ∈ r := by
  refine ⟨_, clones_share_one_connection_list _ c' hc', ?_⟩
  -- the shared list only grows
  have grow : ∀ (ops : List LOp) (l : Lock) (x : Nat), x ∈ l.shared →
      x ∈ (ops.foldl (fun l op => (lstep l op).1) l).shared := by
    intro ops
    induction ops with
    | nil => intro l x hx; exact hx
    | cons op r ih =>
      intro l x hx
      apply ih
      cases op with
      | clone c => simp only [lstep]; split <;> exact hx
      | writePush c w => simp only [lstep]; split
                         · simp; exact Or.inl hx
                         · exact hx
      | read c => simp only [lstep]; split
                  · split <;> exact hx
                  · exact hx
  unfold lrun
  rw [List.foldl_append, List.foldl_append]
  apply grow
  simp only [List.foldl_cons, List.foldl_nil]
  generalize hl : List.foldl (fun l op => (lstep l op).1) {} ops1 = l1
  have hc1 : c < l1.clones.length := by rw [← hl]; exact hc
  simp [lstep, hc1]

/-! ## non-vacuity -/

/-- three repliers, the middle one filtered out for request 4; replies arrive out of order with a spurious wake-up;
the broadcast returns the two replies in connection order -/
example :
    let ops : List Op := [.add 0 0 0, .add 0 3 0, .add 1000 2 0, .bc 4 9, .poll, .reply 2 72, .wake 2, .wake 0, .poll,
                          .reply 0 50, .wake 0]
    let s := ops.foldl (fun s op => (step s op).1) {}
    (poll s).2 = .ready [some 50, some 72] ∧ accepted s.senders s.bcArg = [0, 2] := by
  decide

example : (lstep (lrun [.clone 0, .writePush 1 7, .read 0, .writePush 0 8]) (.read 1)).2 = some [7, 8] := by decide

end NexoVerif.Bcast

/-! ## The task set (M-TSET)

`BroadcastFuture::poll` asks the task set for the sub-tasks that were woken (`take_scheduled`, then the iterator) and,
when there are none, for a notification after a number of wake-ups.  Wakers run on any thread at any time.  M-TSET is
`util/task_set.rs` at the granularity of its atomic operations: `wake_by_ref` (load `next`; if SLEEPING load the head
and claim the task by a CAS on `next`, else confirm by a no-op CAS; the claimer pushes with a CAS on the head that also
decrements the countdown, repairing `next` with a swap after a failed attempt; the push that takes the countdown from 1
to 0 notifies), `take_scheduled` (one read-modify-write of the head) and the iterator (a swap per element).  Any number
of waker threads, several per task, every interleaving, sequentially consistent. -/
namespace NexoVerif.TSet

/-- **task_set_program_shape** — the atomic operations of the three functions, in textual order with their orderings,
read from the source on every run: they are the steps of M-TSET. -/
theorem task_set_program_shape :
    Extracted.taskSetWake = [.load "next" .relaxed, .load "head" .relaxed, .cas "next" .relaxed .relaxed,
      .cas "next" .release .relaxed, .cas "head" .release .relaxed, .call "arc_self.shared.notifier.notify",
      .rmw "next" "swap" .relaxed] ∧
    Extracted.taskSetTake = [.load "head" .relaxed, .cas "head" .acquire .relaxed] ∧
    Extracted.taskSetIterNext = [.rmw "next" "swap" .acquire] := by decide

/-- **no_sub_task_wake_up_is_lost** — in every reachable state a task for which a wake-up has taken effect, and which
the iterator has not yielded since, is in the chain hanging off the head, or in the chain the iterator is still
walking, or held by exactly one waker thread that has claimed it and whose next step pushes it; and when nothing is in
progress it is in the chain hanging off the head, where the next `take_scheduled` finds it. -/
theorem no_sub_task_wake_up_is_lost {n m : Nat} {s : St} (hr : Reach n m s) (i : Nat) (hi : i < s.n)
    (hn : s.need i = true) :
    (i ∈ s.stack ∨ i ∈ s.iter ∨
      ∃ w, Pusher s w i ∧ (∃ l, (step l s).isSome = true) ∧ ∀ w', Pusher s w' i → w' = w) ∧
    (Quiescent s → i ∈ s.stack) :=
  ⟨woken_task_is_on_its_way hr i hi hn, fun hq => no_wake_is_lost hr hq i hi hn⟩

/-- **scheduled_chains_are_well_formed** — the head word designates the top of the chain, the iterator's cursor the first
element of its chain, consecutive elements are linked through their `next` words, no task is in a chain twice or in both
chains, and the iterator never reads SLEEPING. -/
theorem scheduled_chains_are_well_formed {n m : Nat} {s : St} (hr : Reach n m s) :
    s.head.ix = s.stack.head? ∧ s.cur = s.iter.head? ∧ Linked s.next s.stack ∧ Linked s.next s.iter ∧
    (s.stack ++ s.iter).Nodup ∧ s.err = false := chains_are_well_formed hr

/-- **parent_task_is_notified** — after a `take_scheduled(c)` that found nothing, the countdown in the head is `c` minus
the number of pushes since, and once `c > 0` pushes have happened one of them has taken it from 1 to 0 (that waker's
next step is the notification of the parent task). -/
theorem parent_task_is_notified {n m : Nat} {s : St} (hr : Reach n m s) :
    s.head.cd = s.armed - s.pushes ∧ (0 < s.armed → s.armed ≤ s.pushes → s.fired = true) :=
  parent_is_notified_after_countdown hr

/-- **discard_puts_every_sub_task_back_to_sleep** — `discard_scheduled` (read from the source: `take_scheduled(0)` followed
by the iterator's drop, which stores SLEEPING into every remaining element) leaves the set clean: in every reachable
state in which both chains are empty and no waker thread is inside `wake_by_ref`, every task's `next` word is SLEEPING —
so the next wake-up of any task claims and pushes it (a task left marked as scheduled without being in a chain could
never be woken again). -/
theorem discard_puts_every_sub_task_back_to_sleep {n m : Nat} {s : St} (hr : Reach n m s) (hs : s.stack = [])
    (hi : s.iter = []) (hq : ∀ w, w < s.m → s.wpc w = .idle) (i : Nat) (hin : i < s.n) :
    Extracted.taskSetDiscardTakesAndDrops = true ∧ s.next i = .sleeping := by
  refine ⟨by decide, ?_⟩
  have h := reach_inv hr
  cases hn : s.next i with
  | sleeping => rfl
  | empty =>
    rcases h.owned i hin (by rw [hn]; simp) with a | a | ⟨w, hw, _, ⟨hd, hp⟩ | ⟨hd, hp⟩⟩
    · rw [hs] at a; cases a
    · rw [hi] at a; cases a
    · rw [hq w hw] at hp; cases hp
    · rw [hq w hw] at hp; cases hp
  | idx k =>
    rcases h.owned i hin (by rw [hn]; simp) with a | a | ⟨w, hw, _, ⟨hd, hp⟩ | ⟨hd, hp⟩⟩
    · rw [hs] at a; cases a
    · rw [hi] at a; cases a
    · rw [hq w hw] at hp; cases hp
    · rw [hq w hw] at hp; cases hp

/-- **owner_loop_shape** — read from the source on every run: the loop at the end of `BroadcastFuture::poll` registers the
parent's waker (when nothing is scheduled) *before* `take_scheduled(1)`, returns `Pending` when that finds nothing and
otherwise walks the iterator and repeats. -/
theorem owner_loop_shape : Extracted.bcastRegistersBeforeTake = true := by decide

/-- **source_side_owner_loop_shape** — the broadcast future of `EventSource` / `QuerySource`
(`ports/source/broadcaster.rs`) runs the same loop over the same task set: register before `take_scheduled(1)`. -/
theorem source_side_owner_loop_shape : Extracted.srcBcastRegistersBeforeTake = true := by decide

/-- **parent_does_not_sleep_through_a_sub_task_wake_up** — M-TSET composed with that loop and the parent's
`DiatomicWaker` (register / notify), waker threads running at any moment, also *during* a poll: whenever the owner has
returned `Pending`, no waker thread is inside `wake_by_ref` and no notification has reached the parent's registered waker
since its last poll began, there is no outstanding sub-task wake-up.  So a wake-up that races with the poll loop is
either served by that poll, or re-schedules the parent, or is still in the hands of a waker thread that has a step. -/
theorem parent_does_not_sleep_through_a_sub_task_wake_up {n m : Nat} {o : OSt} (hr : OReach n m o)
    (hidle : o.opc = .idle) (hnw : o.willRun = false) (hq : ∀ w, w < o.t.m → o.t.wpc w = .idle) (i : Nat)
    (hi : i < o.t.n) : o.t.need i = false :=
  parent_does_not_sleep_through_a_wakeup hr hidle hnw hq i hi

-- non-vacuity: three tasks, two waker threads racing on the head; both tasks are yielded, one notification
example : (runLabels exSchedule (St.init 3 2)).map (fun s => (s.yielded, s.notified, s.stack, s.cur, s.err)) =
    some ([2, 1], 1, [], none, false) := example_run

end NexoVerif.TSet
