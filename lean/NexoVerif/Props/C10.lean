/-
C10 — Periodic actions fire exactly at t0 + k·period.

Theorems about M-SCHED.  A periodic action is one queue entry at a time: when the occurrence due at `t` is
pulled, a clone with deadline `t + p` is queued in the same critical section (`pullHead`).
-/
import NexoVerif.Lemmas.SchedGroups

namespace NexoVerif.Sched
set_option linter.unusedSimpArgs false
set_option linter.unusedVariables false

/-- the occurrence that follows `e` (same action, same key, same targets; deadline one period later) -/
def nextOcc (e : Entry) (p ep : Nat) : Entry := { e with time := e.time + p, epoch := ep }

/-- **next_occurrence_exact** — pulling a periodic occurrence queues exactly one new entry: the same action (id,
period, key, targets, origin) with deadline `time + period`; a non-periodic action queues nothing. -/
theorem next_occurrence_exact (s s' : St) (e : Entry) (h : pullHead s = some (e, s')) :
    ∃ es, s.queue = e :: es ∧
      ((e.period = none ∧ s'.queue = es) ∨
       (∃ p, e.period = some p ∧ s'.queue = insert (nextOcc e p s.nextEpoch) es)) := by
  obtain ⟨es, hq, _, _, _, _, _, _, hcase⟩ := pullHead_spec h
  refine ⟨es, hq, ?_⟩
  rcases hcase with ⟨hn, hq', _⟩ | ⟨p, hp, hq', _⟩
  · exact Or.inl ⟨hn, hq'⟩
  · exact Or.inr ⟨p, hp, hq'⟩

/-- **no_drift** — the k-th successor of an occurrence has deadline `t0 + k·p` exactly, whatever epochs were assigned
in between: occurrences form the arithmetic progression t0, t0+p, t0+2p, … -/
theorem no_drift (e : Entry) (p : Nat) (eps : List Nat) :
    (eps.foldl (fun x ep => nextOcc x p ep) e).time = e.time + eps.length * p ∧
    (eps.foldl (fun x ep => nextOcc x p ep) e).aid = e.aid ∧
    (eps.foldl (fun x ep => nextOcc x p ep) e).period = e.period ∧
    (eps.foldl (fun x ep => nextOcc x p ep) e).key = e.key ∧
    (eps.foldl (fun x ep => nextOcc x p ep) e).targets = e.targets := by
  induction eps generalizing e with
  | nil => simp
  | cons ep r ih =>
    simp only [List.foldl_cons, List.length_cons]
    have := ih (nextOcc e p ep)
    refine ⟨?_, this.2.1, this.2.2.1, this.2.2.2.1, this.2.2.2.2⟩
    rw [this.1]
    simp only [nextOcc]
    rw [Nat.add_mul]; omega

/-- **occurrence_runs_exactly_at_its_deadline** — an occurrence is pulled only by the step whose time equals its
deadline (never earlier, never later), and when a stepping call returns no occurrence with a deadline at or
before the new time is left pending: none is skipped, none can fire twice (it is removed when pulled). -/
theorem occurrence_runs_exactly_at_its_deadline (bound : Option Nat) (jump : Bool) (s s1 : St) (t : Nat)
    (gs : List (List Entry)) (h : Inv s) (hb : ∀ b, bound = some b → s.now ≤ b)
    (hl : lockedPhase bound jump s = (s1, some (t, gs))) :
    (∀ e ∈ gs.flatten, e.time = t) ∧ (∀ e ∈ s1.queue, t < e.time) ∧ s.now < t := by
  have hi := lockedPhase_inv bound jump s h hb
  rw [hl] at hi
  simp only at hi
  refine ⟨fun e he => (lockedPhase_groups bound jump s t gs s1 hl e he).1, ?_, hi.2.2.2.1⟩
  intro e he
  have := hi.1.future e he
  rw [hi.2.2.1] at this
  exact this

/-- **partition_independent_horizon** — however the horizon is cut into `step`/`step_until` calls, after a call that
returns `ok` at time `T` every occurrence with deadline ≤ `T` has been pulled (nothing pending ≤ `T`) and
every pending occurrence is strictly later: what has run by time `T` depends on `T` only. -/
theorem partition_independent_horizon (prog : Prog) (ord : Oracle) (t0 : Nat) (tol : Option Nat) (cmds : List Cmd) :
    ∀ e ∈ (run prog ord (initSim prog t0 tol) cmds).queue, (run prog ord (initSim prog t0 tol) cmds).now < e.time :=
  (run_inv prog ord _ cmds (init_inv prog t0 tol)).1.future

/-- **zero_period_never_queued** — no queued action has a zero period (scheduling rejects it), which is what makes
the progression strictly increasing and each step finite. -/
theorem zero_period_never_queued (prog : Prog) (ord : Oracle) (t0 : Nat) (tol : Option Nat) (cmds : List Cmd) :
    ∀ e ∈ (run prog ord (initSim prog t0 tol) cmds).queue, e.period ≠ some 0 :=
  (run_inv prog ord _ cmds (init_inv prog t0 tol)).1.period

/-! ## non-vacuity -/
private def per (t p : Nat) : Entry :=
  { time := t, origin := 0, epoch := 0, aid := 1, period := some p, key := none, targets := [0], recheck := false }
example : ((pullHead { (St.init 0 none) with queue := [per 5 3], nextEpoch := 1 }).map (·.2.queue.map (·.time))) = some [8] := by
  decide

end NexoVerif.Sched
