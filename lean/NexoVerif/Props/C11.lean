/-
C11 — Failures are classified correctly and the simulation stays terminated.

Two models are involved.  M-NET (Model/Net.lean) carries the faults raised while handlers run (a handler panic, a
send to a dropped mailbox, a handler overrunning the time-out) and the report `Simulation::run` derives from them.
M-SCHED (Model/Sched.lean) carries the `is_terminated` latch of the driver API (`step`, `step_until`,
`process_event`; `OutOfSync` is the fatal error that model can raise).
-/
import NexoVerif.Lemmas.NetInit
import NexoVerif.Lemmas.SchedTop
import NexoVerif.Lemmas.SchedRun
import NexoVerif.Lemmas.NamesThm
import NexoVerif.Extracted

namespace NexoVerif.Net
set_option linter.unusedSimpArgs false
set_option linter.unusedVariables false

/-- **fault_attribution** — a fault appears only through the step that causes it, and names the right model:
`panic m` iff model `m` pops a payload on which its handler panics, `timeout m` iff it overruns on that payload,
`noRecipient t` iff task `t` pushes to a mailbox that was dropped. -/
theorem fault_attribution (P : Prog) (l : Label) (s s' : St) (hs : step P l s = some s') (f : Fault)
    (hf : s'.fault = some f) :
    (∃ m p ps, l = .deliver m ∧ s.mbox m = p :: ps ∧
        ((f = .panic m ∧ P.faultOn m p.payload = some .panic) ∨ (f = .timeout m ∧ P.faultOn m p.payload = some .sleep))) ∨
    (∃ t i sub k, l = .push t i ∧ (s.task t).cur[i]? = some sub ∧ sub.dst = .dead k ∧ f = .noRecipient t) := by
  unfold step at hs
  split at hs
  · simp at hs
  · rename_i hnf
    have h0 : s.fault = none := by
      cases hx : s.fault with
      | none => rfl
      | some _ => simp [hx] at hnf
    cases l with
    | init m =>
      simp only at hs; split at hs
      · simp only [Option.some.injEq] at hs; subst hs; simp [h0] at hf
      · simp at hs
    | spawn t ops =>
      simp only at hs; split at hs
      · simp only [Option.some.injEq] at hs; subst hs; simp [h0] at hf
      · simp at hs
    | start t =>
      simp only at hs; split at hs
      · simp only [Option.some.injEq] at hs; subst hs; simp [h0] at hf
      · simp at hs
    | push t i =>
      simp only at hs
      split at hs
      · rename_i sub hsub
        split at hs
        · split at hs
          · simp only [Option.some.injEq] at hs; subst hs; simp [h0] at hf
          · rename_i k hk
            simp only [Option.some.injEq] at hs; subst hs
            simp at hf
            exact Or.inr ⟨t, i, sub, k, rfl, hsub, hk, hf.symm⟩
          · split at hs
            · simp only [Option.some.injEq] at hs; subst hs; simp [h0] at hf
            · simp at hs
        · simp at hs
      · simp at hs
    | deliver m =>
      simp only at hs
      split at hs
      · rename_i p ps hph hmb
        simp only [Option.some.injEq] at hs; subst hs
        simp only at hf
        left
        refine ⟨m, p, ps, rfl, hmb, ?_⟩
        split at hf
        · rename_i hk; simp at hf; exact Or.inl ⟨hf.symm, hk⟩
        · rename_i hk; simp at hf; exact Or.inr ⟨hf.symm, hk⟩
        · simp at hf
      · simp at hs
    | opDone t =>
      simp only at hs; split at hs
      · simp only [Option.some.injEq] at hs; subst hs; simp [h0] at hf
      · simp at hs
    | finish t =>
      simp only at hs; split at hs
      · split at hs
        · simp only [Option.some.injEq] at hs; subst hs; simp [h0] at hf
        · simp only [Option.some.injEq] at hs; subst hs; simp [h0] at hf
      · simp at hs

/-- **report_classifies_faults** — the report derived from a fault has the right kind and attribution: `Panic` with
the panicking model, `NoRecipient` with the sending model (none when the sender is not a model: the scheduler or the
driver), `Timeout`; and a fault takes precedence over Deadlock/MessageLoss. -/
theorem report_classifies_faults (P : Prog) (s : St) (simBoxes : List Nat) :
    (∀ m, s.fault = some (.panic m) → report P s simBoxes = .panic m) ∧
    (∀ t, s.fault = some (.noRecipient t) → P.isModel t = true → report P s simBoxes = .noRecipient (some t)) ∧
    (∀ t, s.fault = some (.noRecipient t) → P.isModel t = false → report P s simBoxes = .noRecipient none) ∧
    (∀ m, s.fault = some (.timeout m) → report P s simBoxes = .timeout) ∧
    (s.fault = none → ∀ m, report P s simBoxes ≠ .panic m ∧ report P s simBoxes ≠ .timeout ∧
        ∀ o, report P s simBoxes ≠ .noRecipient o) := by
  refine ⟨?_, ?_, ?_, ?_, ?_⟩
  · intro m h; simp [report, h]
  · intro t h hm; simp [report, h, hm]
  · intro t h hm; simp [report, h, hm]
  · intro m h; simp [report, h]
  · intro h m
    simp only [report, h]
    refine ⟨?_, ?_, ?_⟩
    · intro o; split at o
      · simp at o
      · split at o <;> simp at o
    · intro o; split at o
      · simp at o
      · split at o <;> simp at o
    · intro x o; split at o
      · simp at o
      · split at o <;> simp at o

/-- **nothing_runs_after_a_fault** — once a fault is recorded no task makes another step: no model code runs, no
message moves. -/
theorem nothing_runs_after_a_fault (P : Prog) (s : St) (h : s.fault.isSome = true) (l : Label) : step P l s = none := by
  simp [step, h]

end NexoVerif.Net

namespace NexoVerif.Sched
set_option linter.unusedSimpArgs false
set_option linter.unusedVariables false

/-- the driver calls that run the simulation -/
def Cmd.runs : Cmd → Bool
  | .step | .stepUntil _ | .process _ _ => true
  | _ => false

/-- **terminated_is_absorbing** — after a fatal error every call that would run the simulation returns `Terminated`
and changes nothing: not the time, not the queue, not the log (no model code runs). -/
theorem terminated_is_absorbing (prog : Prog) (ord : Oracle) (s : St) (h : s.terminated = true) (c : Cmd)
    (hc : c.runs = true) : exec prog ord s c = (s, .terminated) := by
  cases c with
  | sched r => simp [Cmd.runs] at hc
  | cancel k => simp [Cmd.runs] at hc
  | step => simp [exec, step, stepNext_terminated prog ord none false s h]
  | stepUntil t => simp [exec, stepUntil, h]
  | process a m => simp [exec, processEvent, h]

/-- **stays_terminated_forever** — for every sequence of further run calls the state never changes again. -/
theorem stays_terminated_forever (prog : Prog) (ord : Oracle) (s : St) (h : s.terminated = true) (cs : List Cmd)
    (hc : ∀ c ∈ cs, c.runs = true) : run prog ord s cs = s ∧ ∀ c ∈ cs, (exec prog ord s c).2 = .terminated := by
  constructor
  · induction cs with
    | nil => rfl
    | cons c r ih =>
      simp only [run, List.foldl_cons]
      rw [terminated_is_absorbing prog ord s h c (hc c (by simp))]
      exact ih (fun c hc' => hc c (by simp [hc']))
  · intro c hcm
    rw [terminated_is_absorbing prog ord s h c (hc c hcm)]

/-- **invalid_deadline_is_not_fatal** — `step_until` with a deadline in the past returns `InvalidDeadline` and leaves
the simulation exactly as it was — in particular not terminated. -/
theorem invalid_deadline_is_not_fatal (prog : Prog) (ord : Oracle) (s : St) (h : s.terminated = false) (t : Nat)
    (ht : t < s.now) : exec prog ord s (.stepUntil t) = (s, .invalidDeadline) := by
  simp [exec, stepUntil, h, ht]

/-- **only_fatal_errors_terminate** — a `step` that returns `ok` from a live simulation leaves it live. -/
theorem only_fatal_errors_terminate (prog : Prog) (ord : Oracle) (s : St) (h : s.terminated = false)
    (hr : (exec prog ord s .step).2 = .ok) : (exec prog ord s .step).1.terminated = false := by
  have := (stepNext_res prog ord none false s).2 h
  simp only [exec, step] at hr ⊢
  exact this hr

end NexoVerif.Sched

/-! ## which name a failure report carries (M-NAMES) -/

namespace NexoVerif.Names

/-- **a_failure_is_reported_under_the_failing_models_name** — M-NET's faults carry the index of the model that raised them;
the code turns the identifier stored in the failing model's future into a name with `model_names[model_id]`.  For every
bench, flat or hierarchical, that entry is the qualified name the model was added under (read from the source: where the
identifier is taken, how sub-models are named, how the report looks the name up). -/
theorem a_failure_is_reported_under_the_failing_models_name (bench : List Proto) (q : String) (id : Nat)
    (h : (q, id) ∈ (addTop false {} bench).spawned) :
    (addTop false {} bench).names[id]? = some q ∧
    Extracted.namesIdTakenWhenNameIsPushed = true ∧ Extracted.namesSubmodelIsQualified = true ∧
    Extracted.namesErrorLooksUpById = true :=
  ⟨(addTop_inv {} bench Inv.empty).lookup h, by decide, by decide, by decide⟩

-- non-vacuity
example : (("top.sub", 0) : String × Nat) ∈ (addTop false {} exBench).spawned := by decide

end NexoVerif.Names
