/-
C15 — Simulation time reads are never torn and never go backwards.

Theorems about M-SEQLOCK (Model/SeqLock.lean): every execution of the view-based release/acquire machine —
any number of `write`s by the one writer, a concurrent reader, any interleaving, any stale-but-coherent choice
of message by every relaxed load.  The orderings are those found in the *current source* (`Extracted.lean`,
regenerated on every run): `extracted_orderings_sufficient` is re-checked each time, so weakening or
re-ordering an atomic operation of `SyncCell::write` / `try_read` breaks this file.
-/
import NexoVerif.Model.SeqLockRun
import NexoVerif.Lemmas.SeqLockThm

namespace NexoVerif.SeqLock
set_option linter.unusedSimpArgs false
set_option linter.unusedVariables false

/-- **extracted_shape** — `write` is `load seq; store seq+1; fence; tearable_store; store seq+2`, `try_read` is
`load seq; tearable_load; fence; load seq`, the tearable accessors touch seconds then nanoseconds — exactly the
programs of the model. -/
theorem extracted_shape : extractedOrds?.isSome = true := by decide

/-- **extracted_orderings_sufficient** — the orderings found in the source are at least: release fence and release
final store in `write`, acquire first load and acquire fence in `try_read`. -/
theorem extracted_orderings_sufficient : minimal extractedOrds := by unfold minimal; decide

/-- **no_torn_read_any_sufficient_orderings** — for *every* choice of orderings at least that strong, a successful
`try_read` returns the two halves of ONE write. -/
theorem no_torn_read_any_sufficient_orderings (o : Ords) (hmin : minimal o) (a0 b0 : Nat) {s : St}
    (h : Reach o a0 b0 s) (hd : s.rpc = .done) (x y : Nat) (hr : s.result = some (some (x, y))) :
    ∃ (k : Nat) (m1 m2 : Msg), s.d1M[k]? = some m1 ∧ m1.val = x ∧ s.d2M[k]? = some m2 ∧ m2.val = y :=
  no_torn_read o hmin a0 b0 h hd x y hr

/-- **time_reads_never_torn** — with the source's orderings: in every reachable state in which a read has
succeeded, the (seconds, nanoseconds) pair returned is the k-th value written, for one k — never the seconds
of one time and the nanoseconds of another. -/
theorem time_reads_never_torn (a0 b0 : Nat) {s : St} (h : Reach extractedOrds a0 b0 s) (hd : s.rpc = .done)
    (x y : Nat) (hr : s.result = some (some (x, y))) :
    ∃ (k : Nat) (m1 m2 : Msg), s.d1M[k]? = some m1 ∧ m1.val = x ∧ s.d2M[k]? = some m2 ∧ m2.val = y :=
  no_torn_read extractedOrds extracted_orderings_sufficient a0 b0 h hd x y hr

/-- **reader_never_goes_backwards** — the write index returned by a successful read is never smaller than the one
returned by the reader's previous successful read (`lastOk`), nor than anything the reader already observed of
the seconds location. -/
theorem reader_never_goes_backwards (a0 b0 : Nat) {s s' : St} (h : Reach extractedOrds a0 b0 s) (i : Nat)
    (hs : step extractedOrds (.rLoadSeq2 i) s = some s') (x y : Nat) (hr : s'.result = some (some (x, y))) :
    s.lastOk ≤ s'.lastOk := by
  have hri := (reach_inv extractedOrds extracted_orderings_sufficient a0 b0 h).2
  simp only [step] at hs
  split at hs
  · rename_i hc
    split at hs
    · split at hs
      · simp only [Option.some.injEq] at hs; subst hs
        have := hri.a (by simp [RPc.rank, hc.1]) (by simp [RPc.rank, hc.1])
        exact this.2.2.1
      · simp only [Option.some.injEq] at hs; subst hs
        simp at hr
    · simp at hs
  · simp at hs

/-- **writer_appends_only** — a writer step only appends messages: the k-th message of the seconds / nanoseconds
locations stays the k-th value passed to `write` ("a value the simulation actually had"). -/
theorem writer_appends_only (o : Ords) (s s' : St) (h : step o .wStep s = some s') :
    (∀ (i : Nat) (m : Msg), s.d1M[i]? = some m → s'.d1M[i]? = some m) ∧
    (∀ (i : Nat) (m : Msg), s.d2M[i]? = some m → s'.d2M[i]? = some m) := by
  simp only [step] at h
  cases hw : s.wpc <;> simp only [hw] at h
  · simp at h
  all_goals
    simp only [Option.some.injEq] at h
    subst h
    refine ⟨fun i m hm => ?_, fun i m hm => ?_⟩ <;> first
      | exact hm
      | exact getElem?_append_some _ hm

/-- **runs_are_reachable** — the executable runs used by the correspondence check and by the failing-history search
are executions of the machine the theorems quantify over. -/
theorem runs_are_reachable (o : Ords) (a0 b0 : Nat) (ls : List Label) (s0 s : St) (h0 : Reach o a0 b0 s0)
    (h : runLabels o ls s0 = some s) : Reach o a0 b0 s := by
  induction ls generalizing s0 with
  | nil => simp [runLabels] at h; subst h; exact h0
  | cons l ls ih =>
    simp only [runLabels, List.foldl_cons, Option.bind_some] at h
    cases hs : step o l s0 with
    | none =>
      rw [hs] at h
      have : ∀ (ls : List Label), ls.foldl (fun acc l => acc.bind (step o l)) (none : Option St) = none := by
        intro ls; induction ls with
        | nil => rfl
        | cons x xs ihx => simpa using ihx
      rw [this] at h; simp at h
    | some s1 =>
      rw [hs] at h
      exact ih s1 (Reach.step l h0 hs) h

/-- **sequence_counter_does_not_come_back** — the model's sequence numbers are unbounded; in the code the counter is an
`AtomicUsize` (read from the source: 64 bits), and the two tests of `try_read` are the ones of the model's reader (early
return on an odd value, final equality): a read can be overlapped by `K` complete writes and still be accepted only if
`2 K ≡ 0 (mod 2^64)` — no `K` below `2^63` does it. -/
theorem sequence_counter_does_not_come_back :
    Extracted.syncCellSeqBits = 64 ∧ Extracted.tryReadTestsTranslated = true ∧
    (∀ seq newSeq, Extracted.tryReadAccept seq newSeq = (newSeq == seq)) ∧
    (∀ k, 0 < k → k < 2 ^ 63 → (2 * k) % 2 ^ Extracted.syncCellSeqBits ≠ 0) := by
  refine ⟨by decide, by decide, fun _ _ => rfl, ?_⟩
  intro k h0 hk
  have : Extracted.syncCellSeqBits = 64 := by decide
  rw [this]
  omega

/-- **sequential_read_returns_last_write** (non-vacuity and tie to the sequential behaviour the harness compares):
a write followed by a sequentially consistent read returns what was written. -/
example : ((doWrite extractedOrds 7 9 (init 0 0)).bind (doReadSC extractedOrds)).map (·.result) =
    some (some (some (7, 9))) := by decide

/-- the hypotheses of the theorems are met by real executions: a reachable state with a successful read -/
example : ∃ s, Reach extractedOrds 0 0 s ∧ s.rpc = .done ∧ s.result = some (some (5, 6)) := by
  have hrun : ∃ s, runLabels extractedOrds [.wBegin 5 6, .wStep, .wStep, .wStep, .wStep, .wStep, .rLoadSeq1 2,
      .rLoadD1 1, .rLoadD2 1, .rFence, .rLoadSeq2 2] (init 0 0) = some s ∧ s.rpc = .done ∧
      s.result = some (some (5, 6)) := by decide
  obtain ⟨s, h1, h2⟩ := hrun
  exact ⟨s, runs_are_reachable _ 0 0 _ _ s Reach.init h1, h2⟩

end NexoVerif.SeqLock
