/-
C19 — Dropping a simulation releases everything exactly once.

Theorems about M-DROP (Model/DropM.lean), the ownership model of what `Executor::drop` (multi-threaded),
`ExecutorInner::drop` (single-threaded), the end of `run_local_worker` and `CancellableFuture::drop` do with the
tasks of an executor: any number of tasks, any placement of their `Runnable`s (none, injector, a worker's fast slot
or local queue), tasks closed or not, futures alive or already completed, and *any* wake-on-drop relation between
them (dropping a future may wake any set of other tasks of the executor: "tasks wake one another while being
dropped").  The switches of the model are read from the source on every run (`Extracted.lean`).  M-TASK (C13)
supplies the per-task half: once every handle of a task is gone its future has been dropped exactly once and its
memory freed exactly once.

What is modelled rather than verified: threads are joined before the cancellation phase (so nothing runs
concurrently with it), the thread-locals `LOCAL_WORKER` / `ACTIVE_TASKS` are represented by the `inCtx` / `ctx`
parameters, models / messages / mailboxes are owned by futures (Rust ownership), so dropping every future exactly
once drops each of them exactly once.  A step time-out that abandons a handler is excluded by the property.
-/
import NexoVerif.Lemmas.DropOther
import NexoVerif.Lemmas.TaskThm
import NexoVerif.Lemmas.AbortThm
import NexoVerif.Lemmas.ReplySlotThm
import NexoVerif.Extracted

namespace NexoVerif.DropM
set_option linter.unusedSimpArgs false
set_option linter.unusedVariables false

/-- the switches of the multi-threaded executor, as found in the source -/
def mtCfg : Cfg := ⟨Extracted.dropWorkerHandsOverFastSlot, Extracted.dropWorkerHandsOverLocalQueue, Extracted.dropMtUnsetsActiveTasks⟩
/-- the switches of the single-threaded executor (it has no worker threads) -/
def stCfg : Cfg := ⟨true, true, Extracted.dropStUnsetsActiveTasks⟩

/-- **source_follows_the_drop_protocol** — the source hands a dying worker's fast slot and local queue over to the
injector, joins the workers before cancelling, cancels inside a worker context, and cancels with `ACTIVE_TASKS`
unset, in both executors. -/
theorem source_follows_the_drop_protocol :
    mtCfg = ⟨true, true, true⟩ ∧ stCfg = ⟨true, true, true⟩ ∧ Extracted.dropMtJoinsThenCancelsInWorker = true := by
  decide

/-- a well-formed executor: every task whose future is alive is registered in the list of active tasks (or is
already closed with its `Runnable` queued), a closed task with a live future has a `Runnable`, and destructors wake
tasks of the same executor -/
abbrev WellFormed (e : Nat) (s : St) : Prop := Q e s

/-- **drop_releases_every_future_exactly_once** — for every well-formed state of executor `e` (idle, deadlocked, failed
with work left in the workers, tasks half-way) and every wake-on-drop relation: after the drop sequence every task of
`e` has no future, no cancel token and no `Runnable` left, and the number of times its future was dropped went up by
exactly one if the future was alive, by zero otherwise — nothing dropped twice, nothing leaked; and no task was
woken outside a worker context (the drop does not panic).  Holds for both executors. -/
theorem drop_releases_every_future_exactly_once (cfg : Cfg) (hcfg : cfg = mtCfg ∨ cfg = stCfg)
    (e : Nat) (outer : Option Nat) (s : St) (h : WellFormed e s) :
    (dropExecutor cfg e outer s).panicked = s.panicked ∧
    ∀ t, t < s.n → (s.task t).exec = e →
      ((dropExecutor cfg e outer s).task t).fut = false ∧
      ((dropExecutor cfg e outer s).task t).token = false ∧
      ((dropExecutor cfg e outer s).task t).loc = .none ∧
      ((dropExecutor cfg e outer s).task t).futDrops = (s.task t).futDrops + (if (s.task t).fut then 1 else 0) := by
  obtain ⟨h1, h2, _⟩ := source_follows_the_drop_protocol
  have hc : cfg = ⟨true, true, true⟩ := by rcases hcfg with h | h <;> rw [h] <;> assumption
  subst hc
  exact dropExecutor_spec _ rfl rfl rfl e outer s h

/-- **nothing_runs_and_nothing_is_rescheduled_afterwards** — after the drop no task of the executor can be scheduled
again: every wake-up is a no-op because no future is left ("no model code runs afterwards"). -/
theorem nothing_runs_and_nothing_is_rescheduled_afterwards (cfg : Cfg) (hcfg : cfg = mtCfg ∨ cfg = stCfg)
    (e : Nat) (outer : Option Nat) (s : St) (h : WellFormed e s) (u : Nat) (hu : u < s.n) (he : (s.task u).exec = e)
    (inCtx : Bool) :
    wake inCtx (dropExecutor cfg e outer s) u = dropExecutor cfg e outer s := by
  have := (drop_releases_every_future_exactly_once cfg hcfg e outer s h).2 u hu he
  exact wake_quiet inCtx _ u (Or.inr this.1)

/-- **other_executors_are_left_alone** — dropping an executor (for instance a nested simulation dropped from inside a
model of another simulation) changes nothing in the tasks of any other executor: their cancel tokens stay in their
lists, so they are still released when *their* executor is dropped. -/
theorem other_executors_are_left_alone (cfg : Cfg) (hcfg : cfg = mtCfg ∨ cfg = stCfg)
    (e : Nat) (outer : Option Nat) (s : St) (h : WellFormed e s)
    (hall : ∀ t u, (s.task t).exec = e → u ∈ (s.task t).wakesOnDrop → (s.task u).exec = e) :
    ∀ v, (s.task v).exec ≠ e → (dropExecutor cfg e outer s).task v = s.task v := by
  obtain ⟨h1, h2, _⟩ := source_follows_the_drop_protocol
  have hc : cfg = ⟨true, true, true⟩ := by rcases hcfg with h | h <;> rw [h] <;> assumption
  subst hc
  exact dropExecutor_untouched _ rfl rfl rfl e outer s h hall

/-! ### the protocol is tight: each switch matters -/

/-- three tasks of one executor: task 0 sits in worker 1's fast slot and its destructor wakes the idle task 1 -/
def exFast : St :=
  { n := 2,
    task := fun t => if t = 0 then { fut := true, token := true, loc := .fast 1, wakesOnDrop := [1] }
                     else if t = 1 then { fut := true, token := true }
                     else {} }

/-- **forgetting_the_fast_slot_panics** — if an exiting worker did not hand its fast slot over, the `Runnable` would be
dropped at thread exit, outside any worker context, and its destructor's wake-up of an idle task would panic
("Tasks may not be awaken outside executor threads"): the state is well-formed, and the drop panics. -/
theorem forgetting_the_fast_slot_panics :
    (dropExecutor ⟨false, true, true⟩ 0 none exFast).panicked = true ∧
    (dropExecutor ⟨true, true, true⟩ 0 none exFast).panicked = false := by
  decide

/-- a nested situation: executor 1 (inner, one idle task with key 0) is dropped while `ACTIVE_TASKS` designates
executor 0 (outer, one idle task with key 0) -/
def exNested : St :=
  { n := 2,
    task := fun t => if t = 0 then { fut := true, token := true, exec := 0, key := 0 }
                     else if t = 1 then { fut := true, token := true, exec := 1, key := 0 }
                     else {} }

/-- **not_unsetting_active_tasks_leaks_the_outer_task** — without the `unset`, dropping the inner executor removes the
outer task's token (same key) from the outer list without cancelling it; when the outer executor is dropped later
that task is never cancelled: its future is never dropped.  With the `unset` it is dropped exactly once. -/
theorem not_unsetting_active_tasks_leaks_the_outer_task :
    ((dropExecutor ⟨true, true, false⟩ 0 none (dropExecutor ⟨true, true, false⟩ 1 (some 0) exNested)).task 0).futDrops = 0 ∧
    ((dropExecutor ⟨true, true, true⟩ 0 none (dropExecutor ⟨true, true, true⟩ 1 (some 0) exNested)).task 0).futDrops = 1 := by
  decide

/-! ### non-vacuity -/

/-- a well-formed state with tasks that wake one another in a cycle while being dropped, one of them queued in a
worker's local queue, one closed with a queued `Runnable`, one already completed -/
def exCycle : St :=
  { n := 4,
    task := fun t =>
      if t = 0 then { fut := true, token := true, wakesOnDrop := [1, 2] }
      else if t = 1 then { fut := true, token := true, loc := .wlocal 0, wakesOnDrop := [2, 0] }
      else if t = 2 then { fut := true, token := true, wakesOnDrop := [0, 3] }
      else if t = 3 then { fut := false, token := false }
      else {} }

theorem exCycle_wf : WellFormed 0 exCycle := by
  constructor
  · intro v hv _ hf
    have : v = 0 ∨ v = 1 ∨ v = 2 ∨ v = 3 := by simp [exCycle] at hv; omega
    rcases this with rfl | rfl | rfl | rfl <;> simp [exCycle] at hf ⊢
  · intro v hv _ hc
    have : v = 0 ∨ v = 1 ∨ v = 2 ∨ v = 3 := by simp [exCycle] at hv; omega
    rcases this with rfl | rfl | rfl | rfl <;> simp [exCycle] at hc ⊢
  · intro v u hv _ hu
    have : v = 0 ∨ v = 1 ∨ v = 2 ∨ v = 3 := by simp [exCycle] at hv; omega
    rcases this with rfl | rfl | rfl | rfl <;> simp [exCycle] at hu ⊢
    all_goals (rcases hu with rfl | rfl <;> simp)

example : (List.range 4).map (fun t => ((dropExecutor ⟨true, true, true⟩ 0 none exCycle).task t).futDrops) = [1, 1, 1, 0] := by
  decide

end NexoVerif.DropM

namespace NexoVerif.TaskM

/-- **a_task_without_handles_is_gone** — the per-task half (proved in C13 over M-TASK for every interleaving): when the
cancel token, the `Runnable`s, the wakers and the promise of a task are all gone, its future has been dropped exactly
once, its output released exactly once if one was produced, and its memory freed exactly once. -/
theorem a_task_without_handles_is_gone {s : S} (h : Reach s)
    (hn : s.wakers = 0 ∧ s.promise = .none ∧ s.token = .none ∧ s.run = .none ∧ s.fin = .none) :
    s.live = false ∧ s.frees = 1 ∧ s.futDrops = 1 ∧ s.outDrops = s.outMade := released_once h hn

end NexoVerif.TaskM

/-! ## the abort reaches every worker (M-ABORT)

M-DROP starts where the worker threads have been joined.  That the joins return — on `Executor::drop`, after a time-out
and after a model panic — is the subject of M-ABORT: `abort_signal.set()` followed by `activate_all_workers()` against the
loop of `run_local_worker`, any number of workers, every interleaving, with anybody unparking anybody at any moment. -/

namespace NexoVerif.Abort

/-- read from `mt_executor.rs`: the signal is set before the workers are unparked, at all three sites -/
def abortFirstSrc : Bool :=
  Extracted.abortSetBeforeUnparkOnDrop && Extracted.abortSetBeforeUnparkOnTimeout && Extracted.abortSetBeforeUnparkOnPanic

/-- read from `pool_manager.rs`: `activate_all_workers` unparks every worker -/
def unparkAllSrc : Bool := Extracted.activateAllUnparksEveryWorker

/-- **abort_protocol_shape** — what M-ABORT takes from the source, read on every run: the order "signal, then unparks"
in `Executor::drop`, on a time-out and after a caught panic; the unconditional unpark of every worker; the two places
where a worker looks at the signal (after the parking block of every turn, before every task). -/
theorem abort_protocol_shape :
    Extracted.abortSetBeforeUnparkOnDrop = true ∧ Extracted.abortSetBeforeUnparkOnTimeout = true ∧
    Extracted.abortSetBeforeUnparkOnPanic = true ∧ Extracted.activateAllUnparksEveryWorker = true ∧
    Extracted.workerTestsAbortAfterParking = true ∧ Extracted.workerTestsAbortBeforeEachTask = true := by decide

/-- **abort_reaches_every_worker** — for any number of workers, wherever each of them is in its loop (parked, about to
park, running tasks, at the top of the loop) and whatever tokens their parkers hold when the abort is raised, and for every
interleaving afterwards: once the signal is set and the last worker has been unparked, (1) every worker that has not left
has a step it can take — none is blocked in `park()` without a token —, (2) every step a worker takes brings it strictly
closer to leaving (at most 4 steps each), and nothing else that can happen moves a worker back, (3) when that distance is
zero every worker has left, so every `join()` returns. -/
theorem abort_reaches_every_worker {n : Nat} {s : St} (r : Reach n abortFirstSrc unparkAllSrc s) (hd : s.agent = .done) :
    s.abort = true ∧
    (∀ j, j < s.n → s.pc j ≠ .exited → ∃ l, isWorkerStep l j ∧ (step l s).isSome = true) ∧
    (∀ l s', step l s = some s' →
      (∃ j, isWorkerStep l j ∧ dist s' < dist s ∧ s'.agent = .done) ∨ (s'.pc = s.pc ∧ s'.n = s.n ∧ s'.agent = .done)) ∧
    (dist s = 0 → ∀ j, j < s.n → s.pc j = .exited) := by
  have e1 : abortFirstSrc = true := by decide
  have e2 : unparkAllSrc = true := by decide
  rw [e1, e2] at r
  have i := inv_reach r
  exact ⟨i.set (by simp [hd]), fun j hj hne => worker_can_move i hd j hj hne,
    fun l s' h => step_after_done i hd l h, dist_zero⟩

/-- **a_worker_that_is_not_unparked_never_leaves** — the two ways to get it wrong, each with a run that ends with the
abort raised, the unparks done and a worker blocked in `park()` for good: unparking only the workers that are parked
(a worker that was running a task parks later and is never woken), and setting the signal after the unparks (a woken
worker sees no signal, goes on and parks again). -/
theorem a_worker_that_is_not_unparked_never_leaves :
    (runLabels [.aStart, .aUnpark, .aUnpark, .wRunDone 0, .wDecidePark 0, .wPark 0]
      (St.init 1 (fun _ => .run) (fun _ => false) true false)).map
      (fun s => (s.agent == .done, s.abort, s.pc 0 == .parked, s.tok 0, stuckB s 0)) = some (true, true, true, false, true) ∧
    (runLabels [.aStart, .aUnpark, .wWake 0, .wCheck 0, .aUnpark, .aSetLate, .wRunDone 0, .wDecidePark 0, .wPark 0]
      (St.init 1 (fun _ => .parked) (fun _ => false) false true)).map
      (fun s => (s.agent == .done, s.abort, s.pc 0 == .parked, s.tok 0, stuckB s 0)) = some (true, true, true, false, true) :=
  ⟨unparking_only_parked_workers_strands_one, unparking_before_the_signal_strands_one⟩

-- non-vacuity of `abort_reaches_every_worker`: a reachable state with the unparks done and workers still on their way
example : ∃ s, Reach 2 abortFirstSrc unparkAllSrc s ∧ s.agent = .done ∧ s.pc 0 = .parked ∧ s.pc 1 = .run := by
  have e1 : abortFirstSrc = true := by decide
  have e2 : unparkAllSrc = true := by decide
  rw [e1, e2]
  have r0 : Reach 2 true true (St.init 2 (fun j => if j = 0 then WPc.parked else WPc.run) (fun _ => false) true true) :=
    Reach.init _ _ (by intro i; by_cases h : i = 0 <;> simp [h])
  have h : (runLabels [.aStart, .aUnpark, .aUnpark, .aUnpark]
      (St.init 2 (fun j => if j = 0 then WPc.parked else WPc.run) (fun _ => false) true true)).isSome = true := by decide
  obtain ⟨s, hs⟩ := Option.isSome_iff_exists.mp h
  refine ⟨s, reach_runLabels _ r0 hs, ?_⟩
  have : (runLabels [.aStart, .aUnpark, .aUnpark, .aUnpark]
      (St.init 2 (fun j => if j = 0 then WPc.parked else WPc.run) (fun _ => false) true true)).map
      (fun s => (s.agent == .done, s.pc 0 == .parked, s.pc 1 == .run)) = some (true, true, true) := by decide
  rw [hs] at this
  simp at this
  exact this

end NexoVerif.Abort

/-! ## the reply slot of `process_query` and `QuerySource` (M-SLOT)

A query's reply travels from the replying model to the caller through the one-shot slot of `util/slot.rs`: a heap cell
shared by one writer and one reader, freed by whoever leaves last.  A simulation dropped with a reply never read, a
query whose model is gone, a reader dropped while the reply is being written: every interleaving of the atomic steps of
the two sides. -/

namespace NexoVerif.Slot

/-- **slot_program_shape** — the atomic operations, the accesses to the value and the free of the four operations of the
slot, in textual order, read from the source on every run: the step structure of M-SLOT. -/
theorem slot_program_shape :
    Extracted.slotWrite = [.call "write_value", .rmw "state" "fetch_or" .release, .fence .acquire,
      .call "drop_value_in_place", .call "Box::from_raw"] ∧
    Extracted.slotWriterDrop = [.load "state" .acquire, .rmw "state" "fetch_or" .acqrel, .call "Box::from_raw"] ∧
    Extracted.slotTryRead = [.load "state" .acquire, .store "state" .relaxed, .call "read_value"] ∧
    Extracted.slotReaderDrop = [.load "state" .acquire, .rmw "state" "fetch_or" .acqrel, .call "drop_value_in_place",
      .call "Box::from_raw"] := by
  refine ⟨by decide, by decide, by decide, by decide⟩

/-- **the_reply_slot_is_freed_exactly_once_by_the_last_to_leave** — in every reachable state: nothing that would be
undefined behaviour has happened (no access after the free, no second free, no read or drop of a value that is not there,
no overwrite); the allocation is not freed while a handle still exists, and is freed — exactly once — when both are gone. -/
theorem the_reply_slot_is_freed_exactly_once_by_the_last_to_leave {s : St} (r : Reach s) :
    s.bad = false ∧ ((s.wpc ≠ .done ∨ s.rpc ≠ .done) → s.freed = 0) ∧ ((s.wpc = .done ∧ s.rpc = .done) → s.freed = 1) := by
  have i := inv_reach r
  refine ⟨i.nobad, ?_, ?_⟩
  · intro h; rw [i.freedEq]; rcases h with h | h <;> simp [h]
  · intro h; rw [i.freedEq]; simp [h]

/-- **a_reply_is_read_or_dropped_exactly_once** — the value is moved out by at most one `try_read`; when both handles are
gone it is not left in the cell: if the write succeeded it was either read or dropped in place by the reader's drop, and
if the write failed (the reader had gone) the writer dropped it. -/
theorem a_reply_is_read_or_dropped_exactly_once {s : St} (r : Reach s) :
    s.reads ≤ 1 ∧ (s.reads = 1 ↔ s.cell = .taken) ∧
    ((s.wpc = .done ∧ s.rpc = .done) → s.cell ≠ .full ∧ (s.wroteOk = true → s.cell = .taken ∨ s.cell = .dropped)) := by
  have i := inv_reach r
  refine ⟨i.readsLe.1, ⟨i.readsLe.2, fun h => (i.takenOk h).2⟩, ?_⟩
  intro h
  have nf : s.cell ≠ .full := by
    intro hf
    rcases i.fullOwned hf with h1 | h1
    · rcases h1 with h1 | h1 <;> simp [h.1] at h1
    · exact h1.2.1 h.2
  refine ⟨nf, fun hw => ?_⟩
  rcases (i.okFull hw).2 with h1 | h1 | h1
  · exact absurd h1 nf
  · exact Or.inl h1
  · exact Or.inr h1

/-- **a_written_reply_is_there_for_the_reader** — after a successful `write`, as long as the reader has neither read nor
been dropped, the state word says `POPULATED` and the value is in the cell: the next `try_read` returns it. -/
theorem a_written_reply_is_there_for_the_reader {s : St} (r : Reach s) (hw : s.wroteOk = true) (hr : s.rpc = .idle)
    (h0 : s.reads = 0) : s.pop = true ∧ s.cell = .full := by
  have i := inv_reach r
  have hp : s.pop = true := by
    rcases i.okPop hw with h | h | h | h
    · exact h
    · rw [hr] at h; cases h
    · omega
    · rw [hr] at h; cases h
  exact ⟨hp, i.popFull hp (by rw [hr]; simp)⟩

-- non-vacuity: the reader is dropped while the writer is between writing the value and publishing it; the writer cleans up
example : (runLabels [.wWriteValue, .rDropLoad, .rDropOr, .wPublish, .wClean] {}).map
    (fun s => (s.bad, s.freed, s.cell, s.wroteOk, s.wpc, s.rpc)) = some (false, 1, .dropped, false, .done, .done) := by decide
-- non-vacuity: write, read, both dropped
example : (runLabels [.wWriteValue, .wPublish, .rTryLoad, .rTryStore, .rTryTake, .rDropLoad, .rFree] {}).map
    (fun s => (s.bad, s.freed, s.cell, s.reads)) = some (false, 1, .taken, 1) := by decide
-- non-vacuity: a reply nobody reads is dropped by the reader's drop
example : (runLabels [.wWriteValue, .wPublish, .rDropLoad, .rFree] {}).map
    (fun s => (s.bad, s.freed, s.cell, s.reads)) = some (false, 1, .dropped, 0) := by decide

end NexoVerif.Slot
