/-
C01 — Chronological execution: every action runs exactly at its deadline.

Theorems about M-SCHED (Model/Sched.lean) for every program (handler scripts, clock answers, foreign
scheduling requests at every synchronisation point), every schedule oracle, every command sequence,
every deadline/period — no bound.  `Inv` (Lemmas/SchedInv.lean) is: queue sorted by (time, origin,
epoch) ∧ every pending deadline > now ∧ no queued zero period ∧ epochs < nextEpoch.
-/
import NexoVerif.Lemmas.SchedLog

namespace NexoVerif.Sched
set_option linter.unusedSimpArgs false
set_option linter.unusedVariables false

/-- **time_monotone_pending_in_future** — from the initial state, after *any* sequence of API commands
(schedule from any thread, cancel, step, step_until, process_event), under *any* task schedule:
the simulation time has not decreased and every pending action has a deadline strictly later than the
current time. -/
theorem time_monotone_pending_in_future (prog : Prog) (ord : Oracle) (t0 : Nat) (tol : Option Nat)
    (cmds : List Cmd) :
    let s := run prog ord (initSim prog t0 tol) cmds
    t0 ≤ s.now ∧ ∀ e ∈ s.queue, s.now < e.time := by
  have h0 := init_inv prog t0 tol
  have hn : (initSim prog t0 tol).now = t0 := init_now prog t0 tol
  have := run_inv prog ord _ cmds h0
  exact ⟨by rw [hn] at this; exact this.2, this.1.future⟩

/-- **every_command_monotone** — each single command keeps the invariant and never moves time backwards. -/
theorem every_command_monotone (prog : Prog) (ord : Oracle) (s : St) (c : Cmd) (h : Inv s) :
    Inv (exec prog ord s c).1 ∧ s.now ≤ (exec prog ord s c).1.now := exec_inv prog ord s c h

/-- **fire_at_deadline** — a handler executed by a stepping call belongs to an action pulled in this very step,
its deadline equals the time it observes, and that is the simulation time when the call returns from this
step: no action runs early or late.  (`OrdSub`: the schedule only reorders spawned deliveries.) -/
theorem fire_at_deadline (prog : Prog) (ord : Oracle) (hord : OrdSub ord) (bound : Option Nat) (jump : Bool)
    (s : St) (h : Inv s) (hb : ∀ b, bound = some b → s.now ≤ b) (a m d seen : Nat)
    (ho : Obs.fire a m d seen ∈ (stepNext prog ord bound jump s).1.log) :
    Obs.fire a m d seen ∈ s.log ∨
      (d = seen ∧ seen = (stepNext prog ord bound jump s).1.now ∧ s.now < seen ∧
        ∃ e : Entry, e.aid = a ∧ e.time = d ∧ m ∈ e.targets ∧ s.isCancelled e = false) := by
  rcases stepNext_fire prog ord bound jump s h hb _ ho rfl with h1 | ⟨s1, t, gs, e, m', hlp, hm, heq, hnow⟩
  · exact Or.inl h1
  · right
    have hmem := mem_spawnOrder (hord gs _ hm)
    have hg := lockedPhase_groups bound jump s t gs s1 hlp e hmem.1
    simp at heq
    obtain ⟨rfl, rfl, rfl, rfl⟩ := heq
    have hl := lockedPhase_inv bound jump s h hb
    rw [hlp] at hl
    simp only at hl
    exact ⟨hg.1, hnow.symm, hl.2.2.2.1, e, rfl, rfl, hmem.2, hg.2⟩

/-- **step_idle_keeps_time** — `step()` with nothing pending (or only cancelled actions) changes nothing but
discarding the cancelled heads: the time stays where it is and the call reports `ok`. -/
theorem step_idle_keeps_time (prog : Prog) (ord : Oracle) (s : St) (hterm : s.terminated = false)
    (hq : (discardCancelled none s).queue = []) :
    (step prog ord s).2 = .ok ∧ (step prog ord s).1.now = s.now ∧ (step prog ord s).1.queue = [] := by
  unfold step stepNext lockedPhase
  simp [hterm, hq]
  exact (discard_spec none s).2.1

/-- **step_until_reaches_target** — `step_until(t)` with `t ≥ now` returns (never diverges) and, when it returns
`ok`, leaves the time equal to `t` with nothing pending at or before `t`; a target in the past is rejected
without any effect. -/
theorem step_until_reaches_target (prog : Prog) (ord : Oracle) (target : Nat) (s : St) (h : Inv s) :
    (stepUntil prog ord target s).2 ≠ .diverged ∧
    ((stepUntil prog ord target s).2 = .ok →
      (stepUntil prog ord target s).1.now = target ∧ ∀ e ∈ (stepUntil prog ord target s).1.queue, target < e.time) ∧
    ((stepUntil prog ord target s).2 = .invalidDeadline → (stepUntil prog ord target s).1 = s ∧ target < s.now) := by
  have := stepUntil_spec prog ord target s h
  refine ⟨this.2.2.1, ?_, this.2.2.2.2⟩
  intro hok
  have hn := this.2.2.2.1 hok
  exact ⟨hn, fun e he => by have := this.1.future e he; omega⟩

/-- **process_keeps_time** — `process_event` runs the handler at the current time and never changes the time. -/
theorem process_keeps_time (prog : Prog) (aid m : Nat) (s : St) (h : Inv s) :
    (processEvent prog aid m s).1.now = s.now ∧ Inv (processEvent prog aid m s).1 :=
  ⟨(processEvent_inv prog aid m s h).2, (processEvent_inv prog aid m s h).1⟩

/-- **step_moves_to_earliest_pending** — when `step()` does move, the new time is the deadline of the head of the
queue after cancelled heads were discarded, i.e. the earliest pending non-cancelled deadline. -/
theorem step_moves_to_earliest_pending (prog : Prog) (ord : Oracle) (s : St) (h : Inv s) (hterm : s.terminated = false)
    (x : Entry) (xs : List Entry) (hq : (discardCancelled none s).queue = x :: xs) :
    (step prog ord s).1.now = x.time ∧ (∀ e ∈ (discardCancelled none s).queue, x.time ≤ e.time) := by
  have hd := discard_inv none s h
  constructor
  · unfold step stepNext
    simp only [hterm]
    have hl : ∃ s1 gs, lockedPhase none false s = (s1, some (x.time, gs)) := by
      unfold lockedPhase
      simp [hq, within]
    obtain ⟨s1, gs, hl⟩ := hl
    have hli := lockedPhase_inv none false s h (by intro b hb; simp at hb)
    rw [hl] at hli ⊢
    simp only at hli ⊢
    have := (afterLock_inv prog ord x.time gs s1 hli.1).2
    simp only [Bool.false_eq_true, ite_false]
    rw [this, hli.2.2.1]
  · intro e he
    rw [hq] at he
    simp at he
    rcases he with rfl | he
    · exact Nat.le_refl _
    · have := hd.sorted; rw [hq] at this
      exact Entry.lt_time ((List.pairwise_cons.mp this).1 e he)

/-! ## non-vacuity -/
example : Inv (initSim { handler := fun _ _ _ => [], clock := fun _ => none, ext := fun _ => [] } 5 none) :=
  init_inv _ 5 none

end NexoVerif.Sched
