/-
C02 — Causal message ordering between models.

Theorems about M-NET (Model/Net.lean).  Every packet carries, as ghost data, its *causal past*: the set of event
ids whose sending happens-before its own sending, built exactly from the two kinds of edges the property names —
program order between completed port operations of one task (`opDone` adds the operation's deliveries to the task's
past, a later push attaches the task's past) and send-to-processing edges (`deliver` joins the packet's past, which
contains the packet's own id, into the processing task's past; a query reply carries the replier's past back).
The theorems hold in every state reachable by any interleaving of any number of tasks, for every program and every
capacity ≥ 0, including all states in which senders are suspended on full mailboxes (a `push` is simply not enabled
then).
-/
import NexoVerif.Lemmas.NetInit

namespace NexoVerif.Net
set_option linter.unusedSimpArgs false
set_option linter.unusedVariables false

/-- **causal_past_arrived_before** — when a message is enqueued, every message in its causal past has already been
enqueued in its own destination mailbox, strictly earlier in the global arrival order. -/
theorem causal_past_arrived_before (P : Prog) {s : St} (h : Reach P s) {e' : Nat} {past : List Nat}
    (hp : (e', past) ∈ s.pasts) {e : Nat} (he : e ∈ past) : BeforeL (arrE s) e e' :=
  (reach_cinv P h).pastsBefore e' past hp e he

private theorem beforeL_filterMap {α β} (f : α → Option β) {l : List α} {x y : α} {x' y' : β}
    (h : BeforeL l x y) (hx : f x = some x') (hy : f y = some y') : BeforeL (l.filterMap f) x' y' := by
  obtain ⟨pre, post, rfl, hm⟩ := h
  refine ⟨pre.filterMap f, post.filterMap f, ?_, ?_⟩
  · simp [List.filterMap_append, List.filterMap_cons, hy]
  · exact List.mem_filterMap.mpr ⟨x, hm, hx⟩

/-- **causal_delivery_order** — the property: if the sending of M1 (event `e`) happens-before the sending of M3
(event `e'`) and both are addressed to the same model `B`, then `e` precedes `e'` in `B`'s arrival sequence — and
since `B` processes its arrivals in arrival order (`processing_is_arrival_prefix`), `B` processes M1 before M3. -/
theorem causal_delivery_order (P : Prog) {s : St} (h : Reach P s) {e e' B : Nat} {past : List Nat}
    (hp : (e', past) ∈ s.pasts) (he : e ∈ past) (hB : (B, e) ∈ s.arrLog) (hB' : (B, e') ∈ s.arrLog) :
    BeforeL (arrivals s B) e e' := by
  have hb := causal_past_arrived_before P h hp he
  have hnd := (reach_finv P h).arrNodup
  -- lift the order on event ids to the order on (mailbox, id) pairs using uniqueness of ids
  obtain ⟨pre, post, hsplit, hm⟩ := hb
  unfold arrE at hsplit hnd
  obtain ⟨l1, l2r, hl, hpre, hrest⟩ := List.map_eq_append_iff.mp hsplit
  obtain ⟨y, l2, hl2, hy, hpost⟩ := List.map_eq_cons_iff.mp hrest
  obtain ⟨x, hx1, hx2⟩ := List.mem_map.mp (hpre ▸ hm)
  -- y is the arrival entry of e', x the one of e
  have hyB : y = (B, e') := by
    have hyin : y ∈ s.arrLog := by rw [hl, hl2]; simp
    exact nodup_map_inj (·.2) hnd hyin hB' hy
  have hxB : x = (B, e) := by
    have hxin : x ∈ s.arrLog := by rw [hl]; simp [hx1]
    exact nodup_map_inj (·.2) hnd hxin hB hx2
  have hbl : BeforeL s.arrLog (B, e) (B, e') := ⟨l1, l2, by rw [hl, hl2, hyB], hxB ▸ hx1⟩
  have := beforeL_filterMap (fun x : Nat × Nat => if x.1 == B then some x.2 else none) hbl (x' := e) (y' := e')
    (by simp) (by simp)
  have heq : s.arrLog.filterMap (fun x : Nat × Nat => if x.1 == B then some x.2 else none) = arrivals s B := by
    unfold arrivals
    rw [← List.filterMap_eq_filter, List.map_filterMap]
    congr 1
    funext x
    by_cases hx : x.1 == B <;> simp [hx, Option.guard]
  rw [heq] at this
  exact this

/-- **processing_is_arrival_prefix** — a model processes its messages in arrival order: at every moment the
sequence it has processed is a prefix of the sequence that arrived. -/
theorem processing_is_arrival_prefix (P : Prog) {s : St} (h : Reach P s) (B : Nat) :
    handledBy s B <+: arrivals s B := handled_prefix (reach_inv P h) B

/-- **processed_in_causal_order** — hence: if M3 has been processed by `B` and M1 happens-before M3 (both sent to
`B`), then M1 was processed by `B` earlier. -/
theorem processed_in_causal_order (P : Prog) {s : St} (h : Reach P s) {e e' B : Nat} {past : List Nat}
    (hp : (e', past) ∈ s.pasts) (he : e ∈ past) (hB : (B, e) ∈ s.arrLog) (hB' : (B, e') ∈ s.arrLog)
    (hdone : e' ∈ handledBy s B) : BeforeL (handledBy s B) e e' := by
  have ho := causal_delivery_order P h hp he hB hB'
  obtain ⟨rest, hr⟩ := processing_is_arrival_prefix P h B
  have hnd : (arrivals s B).Nodup := by
    have := (reach_finv P h).arrNodup
    unfold arrivals
    exact List.Nodup.sublist (List.Sublist.map _ List.filter_sublist) this
  obtain ⟨pre, post, hsplit, hm⟩ := ho
  obtain ⟨p2, q2, hh⟩ := List.append_of_mem hdone
  -- both decompositions of arrivals around the unique e' coincide
  have h1 : arrivals s B = p2 ++ e' :: (q2 ++ rest) := by rw [← hr, hh]; simp
  have hpre : pre = p2 := by
    rw [hsplit] at h1 hnd
    have hnot : e' ∉ pre := by
      intro hin
      have := (List.nodup_append.mp hnd).2.2 e' hin e' (by simp)
      exact this rfl
    have hnot2 : e' ∉ p2 := by
      intro hin
      rw [h1] at hnd
      have := (List.nodup_append.mp hnd).2.2 e' hin e' (by simp)
      exact this rfl
    exact split_unique h1 hnot hnot2
  exact ⟨p2, q2, hh, hpre ▸ hm⟩

/-- **edges_are_recorded** — the causal past really contains the edges the property names:
(1) a push attaches the pushing task's current past; (2) processing a packet adds the packet's id and past to the
processing task's past; (3) completing a port operation adds the ids it delivered to the task's past. -/
theorem edges_are_recorded (P : Prog) (s s' : St) :
    (∀ t i sub d, step P (.push t i) s = some s' → (s.task t).cur[i]? = some sub → sub.dst = .box d →
        (sub.eid, (s.task t).past) ∈ s'.pasts) ∧
    (∀ m p ps, step P (.deliver m) s = some s' → s.mbox m = p :: ps → ∀ e ∈ p.past, e ∈ (s'.task m).past) ∧
    (∀ t, step P (.opDone t) s = some s' → ∀ sub ∈ (s.task t).cur, ∀ d, sub.dst = .box d →
        sub.eid ∈ (s'.task t).past) := by
  refine ⟨?_, ?_, ?_⟩
  · intro t i sub d hs hsub hd
    unfold step at hs
    split at hs
    · simp at hs
    · simp only [hsub, hd] at hs
      split at hs
      · split at hs
        · simp only [Option.some.injEq] at hs; subst hs; simp
        · simp at hs
      · simp at hs
  · intro m p ps hs hmb e he
    unfold step at hs
    split at hs
    · simp at hs
    · simp only [hmb] at hs
      split at hs
      · rename_i heq
        simp only [Option.some.injEq] at hs; subst hs
        simp only [List.cons.injEq] at heq
        obtain ⟨h1, h2⟩ := heq
        subst h1
        simp; exact mem_pjoin.mpr (Or.inl he)
      · simp at hs
  · intro t hs sub hsub d hd
    unfold step at hs
    split at hs
    · simp at hs
    · simp only at hs
      split at hs
      · simp only [Option.some.injEq] at hs; subst hs
        simp
        apply mem_pjoin.mpr; left
        unfold boxEids
        exact List.mem_filterMap.mpr ⟨sub, hsub, by simp [hd]⟩
      · simp at hs

/-- non-vacuity: the scenario of the property statement (A sends M1 to B, then M2 to C; C while processing M2 sends
M3 to B) is reachable, M1 (event 0) is in the recorded causal past of M3 (event 2), and both arrived at B = 1. -/
example : ∃ s, Reach exProg3 s ∧ (∃ past, (2, past) ∈ s.pasts ∧ 0 ∈ past) ∧ (1, 0) ∈ s.arrLog ∧ (1, 2) ∈ s.arrLog := by
  cases hfin : runLabels exProg3 exLabels3 St.init with
  | none => exact absurd hfin (by decide)
  | some s1 =>
    have hc : (runLabels exProg3 exLabels3 St.init).map
        (fun s => (s.pasts.any (fun x => x.1 == 2 && x.2.contains 0), s.arrLog)) = some (true, [(1, 0), (2, 1), (1, 2)]) := by
      decide
    rw [hfin] at hc
    simp only [Option.map_some, Option.some.injEq, Prod.mk.injEq] at hc
    refine ⟨s1, reach_runLabels exProg3 _ Reach.init hfin, ?_, by simp [hc.2], by simp [hc.2]⟩
    obtain ⟨x, hx, hx2⟩ := List.any_eq_true.mp hc.1
    simp only [Bool.and_eq_true, beq_iff_eq, List.contains_eq_mem, decide_eq_true_eq] at hx2
    exact ⟨x.2, by rw [← hx2.1]; exact hx, hx2.2⟩

end NexoVerif.Net
