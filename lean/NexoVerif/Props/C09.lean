/-
C09 — Cancellation takes effect up to the last moment.

Theorems about M-SCHED.  An `ActionKey` is an object (`Entry.key`, shared by all occurrences of a periodic
action); `St.cancelled` is the set of cancelled objects; `cancelKey s k` cancels every key the caller stored
under the name `k` (through any clone, or by dropping an `AutoActionKey`).
-/
import NexoVerif.Lemmas.SchedShape

namespace NexoVerif.Sched
set_option linter.unusedSimpArgs false
set_option linter.unusedVariables false

/-- **cancelled_before_step_not_spawned** — an action whose key is cancelled when the step in which it is due begins is
not among the actions spawned by that step: every spawned action is live at that moment (and due exactly at
the step's time). -/
theorem cancelled_before_step_not_spawned (bound : Option Nat) (jump : Bool) (s s1 : St) (t : Nat)
    (gs : List (List Entry)) (h : lockedPhase bound jump s = (s1, some (t, gs))) :
    ∀ e ∈ gs.flatten, s.isCancelled e = false ∧ e.time = t :=
  fun e he => ⟨(lockedPhase_groups bound jump s t gs s1 h e he).2, (lockedPhase_groups bound jump s t gs s1 h e he).1⟩

/-- **cancelled_never_runs** — consequently no handler executed by a stepping call belongs to an action whose key was
cancelled before the call pulled it (`OrdSub`: the schedule only reorders spawned deliveries). -/
theorem cancelled_never_runs (prog : Prog) (ord : Oracle) (hord : OrdSub ord) (bound : Option Nat) (jump : Bool)
    (s : St) (h : Inv s) (hb : ∀ b, bound = some b → s.now ≤ b) (a m d seen : Nat)
    (ho : Obs.fire a m d seen ∈ (stepNext prog ord bound jump s).1.log) :
    Obs.fire a m d seen ∈ s.log ∨ ∃ e : Entry, e.aid = a ∧ e.time = d ∧ s.isCancelled e = false := by
  rcases stepNext_fire prog ord bound jump s h hb _ ho rfl with h1 | ⟨s1, t, gs, e, m', hlp, hm, heq, _⟩
  · exact Or.inl h1
  · right
    have hmem := mem_spawnOrder (hord gs _ hm)
    have hg := lockedPhase_groups bound jump s t gs s1 hlp e hmem.1
    simp at heq
    obtain ⟨rfl, rfl, rfl, rfl⟩ := heq
    exact ⟨e, rfl, rfl, hg.2⟩

/-- **cancelled_head_discarded_not_reinserted** — discarding cancelled heads only removes entries: nothing is inserted
(a cancelled periodic action gets no further occurrence), no epoch is consumed, the time does not move. -/
theorem cancelled_head_discarded_not_reinserted (bound : Option Nat) (s : St) :
    (discardCancelled bound s).queue.Sublist s.queue ∧ (discardCancelled bound s).nextEpoch = s.nextEpoch ∧
    (discardCancelled bound s).now = s.now :=
  ⟨(discard_spec bound s).1, (discard_spec bound s).2.2.1, (discard_spec bound s).2.1⟩

/-- **periodic_occurrences_share_key** — the next occurrence re-inserted for a periodic action carries the same key
object, so cancelling the key (through any clone) cancels every later occurrence. -/
theorem periodic_occurrences_share_key (s s' : St) (e : Entry) (p : Nat) (h : pullHead s = some (e, s'))
    (hp : e.period = some p) :
    ∃ c ∈ s'.queue, c.key = e.key ∧ c.time = e.time + p ∧ c.aid = e.aid ∧ (∀ st : St, st.isCancelled c = st.isCancelled e) := by
  obtain ⟨es, _, _, _, _, _, _, _, hcase⟩ := pullHead_spec h
  rcases hcase with ⟨hn, _, _⟩ | ⟨p', hp', hq', _⟩
  · rw [hp] at hn; simp at hn
  · rw [hp] at hp'; simp at hp'; subst hp'
    exact ⟨{ e with time := e.time + p, epoch := s.nextEpoch }, by rw [hq']; exact mem_insert.mpr (Or.inl rfl),
      rfl, rfl, rfl, fun st => rfl⟩

/-- **cancel_same_step_model_input** — an event scheduled on a model input whose key is cancelled at the moment its
model starts processing it (e.g. by an earlier event of that model at the same time) is skipped: no
handler runs, nothing but the log entry changes. -/
theorem cancel_same_step_model_input (prog : Prog) (s : St) (e : Entry) (m : Nat) (hr : e.recheck = true)
    (hc : s.isCancelled e = true) :
    runFire prog s e m = { s with log := .skip e.aid m :: s.log } := by
  unfold runFire; simp [hr, hc]

/-- **live_event_runs** — conversely a delivery whose key is not cancelled at that moment (or that is not re-checked:
`EventSource` actions) does run its handler, seeing its own deadline as the current time. -/
theorem live_event_runs (prog : Prog) (s : St) (e : Entry) (m : Nat) (h : e.recheck = false ∨ s.isCancelled e = false) :
    ∃ s', runFire prog s e m = execH s' (prog.handler e.aid m s.now) ∧ s'.log = .fire e.aid m e.time s.now :: s.log := by
  unfold runFire
  rcases h with h | h <;> simp [h]
  all_goals exact ⟨_, rfl, rfl⟩

/-- **cancel_is_local** — cancelling changes nothing but the set of cancelled key objects; an action is affected iff
its own key object was stored under the cancelled name — other actions, the queue and the time are
untouched, and cancelling after execution (or twice, or through a clone) has no other effect. -/
theorem cancel_is_local (s : St) (k : Nat) :
    (cancelKey s k).queue = s.queue ∧ (cancelKey s k).now = s.now ∧ (cancelKey s k).nextEpoch = s.nextEpoch ∧
    (cancelKey s k).log = s.log ∧ (cancelKey s k).keys = s.keys ∧
    (∀ e : Entry, (cancelKey s k).isCancelled e =
      (s.isCancelled e || match e.key with | some o => s.keys.contains (k, o) | none => false)) := by
  refine ⟨rfl, rfl, rfl, rfl, rfl, ?_⟩
  intro e
  unfold St.isCancelled cancelKey
  cases hk : e.key with
  | none => simp
  | some o =>
    rw [Bool.eq_iff_iff]
    simp only [List.contains_eq_mem, Bool.or_eq_true, decide_eq_true_eq, List.mem_append, List.mem_map,
      List.mem_filter, beq_iff_eq]
    constructor
    · intro h
      rcases h with ⟨⟨n, o'⟩, ⟨hm, hn⟩, ho⟩ | h
      · right; simp at hn ho; subst hn; subst ho; exact hm
      · left; exact h
    · intro h
      rcases h with h | h
      · right; exact h
      · left; exact ⟨(k, o), ⟨h, rfl⟩, rfl⟩

/-! ## non-vacuity -/
example : (cancelKey { (St.init 0 none) with keys := [(7, 3)] } 7).cancelled = [3] := by decide

end NexoVerif.Sched
