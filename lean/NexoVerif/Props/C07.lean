/-
C07 — Same-time events from one origin are processed in scheduling order.

Theorems about M-SCHED.  The queue key is (time, origin, epoch); the epoch is assigned from a counter when the
request is accepted (or, for the next occurrence of a periodic action, when the previous occurrence is pulled).
All actions pulled in one step with the same (time, origin) are put, in queue order, into one group = one
sequential task (`SeqFuture`); mailboxes are FIFO (C02/C12), so each target model processes them in that order.
The run phase of the model is quantified over every schedule oracle; the correspondence check validates on
every real trace that the observed order keeps each (time, origin, target) chain in epoch order.
That one sequential task runs its members in list order is proved over M-SEQ (Model/SeqFut.lean, the loop of
`SeqFuture::poll`, read from the source): end of this file.
-/
import NexoVerif.Lemmas.SchedGroups
import NexoVerif.Lemmas.SeqFutThm
import NexoVerif.Extracted

namespace NexoVerif.Sched
set_option linter.unusedSimpArgs false
set_option linter.unusedVariables false

/-- **epoch_is_scheduling_order** — an accepted request gets an epoch larger than that of every action already
queued: among actions with the same deadline and origin, queue order is the order of acceptance. -/
theorem epoch_is_scheduling_order (s : St) (r : SchedReq) (h : Inv s) (hok : (sched s r).2 = .ok) :
    ∃ e ∈ (sched s r).1.queue, e.epoch = s.nextEpoch ∧ e.time = r.time s.now ∧ e.origin = r.origin ∧
      ∀ x ∈ s.queue, x.epoch < e.epoch := by
  unfold sched at hok ⊢
  split
  · rename_i hp; simp [hp] at hok
  · split
    · rename_i hp ht; simp [hp, ht] at hok
    · exact ⟨_, mem_insert.mpr (Or.inl rfl), rfl, rfl, rfl, fun x hx => h.epoch x hx⟩

/-- **periodic_occurrence_scheduled_when_previous_is_pulled** — the next occurrence of a periodic action is queued at
the moment the current one is pulled, with a fresh epoch: it counts as scheduled at that moment, after
everything queued before and before anything the handlers of this step will schedule. -/
theorem periodic_occurrence_scheduled_when_previous_is_pulled (s s' : St) (e : Entry) (p : Nat)
    (h : pullHead s = some (e, s')) (hp : e.period = some p) :
    ∃ c ∈ s'.queue, c.epoch = s.nextEpoch ∧ s'.nextEpoch = s.nextEpoch + 1 ∧ c.time = e.time + p ∧
      c.origin = e.origin ∧ c.targets = e.targets := by
  obtain ⟨es, _, _, _, _, _, _, _, hcase⟩ := pullHead_spec h
  rcases hcase with ⟨hn, _, _⟩ | ⟨p', hp', hq', hep⟩
  · rw [hp] at hn; simp at hn
  · rw [hp] at hp'; simp at hp'; subst hp'
    exact ⟨{ e with time := e.time + p, epoch := s.nextEpoch }, by rw [hq']; exact mem_insert.mpr (Or.inl rfl),
      rfl, hep, rfl, rfl, rfl⟩

/-- **pulled_in_queue_order** — the actions spawned by a step, listed group after group, are in strictly increasing
(time, origin, epoch) order: same-origin actions are handed to the executor in scheduling order. -/
theorem pulled_in_queue_order (bound : Option Nat) (jump : Bool) (s s1 : St) (t : Nat) (gs : List (List Entry))
    (h : Inv s) (hl : lockedPhase bound jump s = (s1, some (t, gs))) : Sorted gs.flatten := by
  unfold lockedPhase at hl
  simp only at hl
  have hd := discard_inv bound s h
  split at hl
  · split at hl <;> simp at hl
  · rename_i x xs hq
    split at hl
    · split at hl <;> simp at hl
    · simp at hl
      obtain ⟨_, rfl, rfl⟩ := hl
      have hW := writeTime_invW _ x xs hd hq
      have := pullAll_sorted bound x.time (writeTime x.time (discardCancelled bound s)).queue.length
        (writeTime x.time (discardCancelled bound s)) [] hW (by simp [flat, Sorted]) (by simp [flat])
      exact this

/-- **one_sequential_task_per_origin** — the spawned groups are exactly the maximal runs of equal (time, origin): all
members of a group share their key and two consecutive groups have different keys, so (the pull order being
sorted) every action of one origin due at this time is in the *same* sequential task. -/
theorem one_sequential_task_per_origin (bound : Option Nat) (t fuel : Nat) (s : St) :
    Grouped (pullAll bound t fuel s []).2 :=
  pullAll_grouped bound t fuel s [] trivial

/-- **groups_members_share_key** — unfolding of the previous statement for the chronological group list of a step. -/
theorem groups_members_share_key (bound : Option Nat) (t fuel : Nat) (s : St) :
    ∀ g ∈ ((pullAll bound t fuel s []).2.map List.reverse).reverse, ∀ a ∈ g, ∀ b ∈ g, a.sameKey b = true := by
  have hG := pullAll_grouped bound t fuel s [] trivial
  generalize (pullAll bound t fuel s []).2 = acc at hG
  intro g hg a ha b hb
  simp only [List.mem_reverse, List.mem_map] at hg
  obtain ⟨g0, hg0, rfl⟩ := hg
  simp only [List.mem_reverse] at ha hb
  induction acc with
  | nil => simp at hg0
  | cons x r ih =>
    simp only [List.mem_cons] at hg0
    rcases hg0 with rfl | hg0
    · exact hG.2.1 a ha b hb
    · exact ih hG.2.2.2 hg0

/-! ## non-vacuity -/
private def ev (t o ep a : Nat) : Entry :=
  { time := t, origin := o, epoch := ep, aid := a, period := none, key := none, targets := [0], recheck := false }
example : ((pullAll none 5 3 { (St.init 0 none) with queue := [ev 5 0 0 1, ev 5 0 1 2, ev 5 1 2 3], nextEpoch := 3 } []).2.map
    (fun g => g.map (·.aid))) = [[3], [2, 1]] := by decide

end NexoVerif.Sched

/-! ## The sequential task (M-SEQ) -/
namespace NexoVerif.SeqFut

/-- **seq_future_loop_shape** — `SeqFuture::poll` is the loop M-SEQ models and `push` appends (read from the source on
every run). -/
theorem seq_future_loop_shape : Extracted.seqFuturePollsInOrder = true := by decide

/-- **group_members_complete_in_list_order** — however often and with whatever readiness of its members the executor
polls the compound future of a group of `n ≥ 1` actions: the members complete in list order, each once (the
completions so far are 0, 1, …, idx−1); a member is polled only after all earlier members have completed (so its
message is sent after theirs), and never again after it has completed; and when the compound future is `Ready` all
`n` members have completed. -/
theorem group_members_complete_in_list_order {n : Nat} (hn : 0 < n) {s : St} (h : Reach n s) :
    comps s.log = List.range s.idx ∧
    (∀ a b k, s.log = a ++ Ev.polled k :: b → comps a = List.range k) ∧
    (s.done = true → comps s.log = List.range n) :=
  ⟨completions_in_list_order hn h, fun a b k hl => polled_only_after_predecessors hn h a b k hl,
   ready_means_all_completed hn h⟩

-- non-vacuity: three members, the second one pending at its first poll
example : (poll (fun _ _ => true) (poll (fun k n => !(k == 1 && n == 2)) { len := 3 })).log =
    [.polled 0, .completed 0, .polled 1, .polled 1, .completed 1, .polled 2, .completed 2] := by decide

end NexoVerif.SeqFut
