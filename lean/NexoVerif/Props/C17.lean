/-
C17 — Event sinks: FIFO bounded buffer, last-value slot, open/close.

Property theorems only (helper lemmas are in Lemmas/SinkLemmas.lean).  All statements are for every
capacity ≥ 1, every start state and every finite operation sequence — no bound.
-/
import NexoVerif.Model.Sink
import NexoVerif.Lemmas.SinkLemmas
import NexoVerif.Extracted

namespace NexoVerif.Sink

set_option linter.unusedSimpArgs false

/-! ## C17.1  the buffer never holds more than `capacity` events -/

/-- **buf_bounded** — for every capacity ≥ 1, every reachable state holds at most `cap` events. -/
theorem buf_bounded (b : Buf) (ops : List Op) (hc : 1 ≤ b.cap) (h : b.items.length ≤ b.cap) :
    (b.run ops).items.length ≤ (b.run ops).cap := by
  induction ops generalizing b with
  | nil => exact h
  | cons op ops ih =>
    rw [run_cons]
    exact ih _ (by rw [step_cap]; exact hc) (step_len_le b op hc h)

/-! ## C17.2  contents = the most recent accepted writes, in order (FIFO, eviction from the front) -/

/-- **buf_suffix** — at every moment the buffer content is a *suffix* of (initial content ++ accepted
writes): events are kept in writing order, only the oldest ones are ever missing (read or evicted),
never one in the middle, never one that was not written while the sink was open. -/
theorem buf_suffix (b : Buf) (ops : List Op) :
    (b.run ops).items <:+ b.items ++ accepted b.isOpen ops :=
  buf_suffix_gen b ops b.items (List.suffix_refl _)

/-- **buf_overflow_recent** — a burst of writes while open, with no read in between, leaves exactly the
most recent `cap` events of (old content ++ burst). -/
theorem buf_overflow_recent (b : Buf) (ws : List Nat) (ho : b.isOpen = true) (hc : 1 ≤ b.cap)
    (h : b.items.length ≤ b.cap) :
    (b.run (ws.map Op.write)).items =
      (b.items ++ ws).drop ((b.items ++ ws).length - b.cap) := by
  induction ws generalizing b with
  | nil =>
    have : b.items.length - b.cap = 0 := by omega
    simp [Buf.run, this]
  | cons w ws ih =>
    simp only [List.map_cons, run_cons, Buf.step]
    rw [ih (b.write w) (by rw [write_isOpen]; exact ho) (by rw [write_cap]; exact hc)
      (by rw [write_cap]; exact write_len_le b w hc h), write_cap]
    unfold Buf.write
    by_cases hf : b.items.length = b.cap
    · cases hb : b.items with
      | nil => simp [hb] at hf; omega
      | cons a r =>
        simp [hb] at hf
        simp [ho, hb, hf]
        have e1 : r.length + (ws.length + 1) - b.cap = ws.length := by omega
        have e2 : r.length + (ws.length + 1) + 1 - b.cap = ws.length + 1 := by omega
        rw [e1, e2]
        simp
    · simp [ho, hf, List.append_assoc]

/-- **buf_next_oldest** — `next` returns the oldest retained event and removes exactly it. -/
theorem buf_next_oldest (b : Buf) :
    b.next.2 = b.items.head? ∧ b.next.1.items = b.items.tail := by
  unfold Buf.next; split <;> simp_all

/-- **buf_write_lossless_when_room** — an accepted write into a non-full buffer loses nothing. -/
theorem buf_write_lossless_when_room (b : Buf) (x : Nat) (ho : b.isOpen = true)
    (h : b.items.length < b.cap) : (b.write x).items = b.items ++ [x] := by
  unfold Buf.write
  have : ¬ (b.items.length = b.cap) := by omega
  simp [ho, this]

/-- **buf_write_evicts_oldest** — an accepted write into a full buffer evicts exactly the oldest event. -/
theorem buf_write_evicts_oldest (b : Buf) (x : Nat) (ho : b.isOpen = true)
    (h : b.items.length = b.cap) : (b.write x).items = b.items.tail ++ [x] := by
  unfold Buf.write; simp [ho, h]

/-! ## C17.3  slot: the most recently written event, once -/

/-- **slot_last** — after any history `pre`, an accepted write of `x` followed by operations that
contain no further accepted write and no read (`quiet`) makes the next read return `x`… -/
theorem slot_last (s : Slot) (pre post : List Op) (x : Nat)
    (hopen : (s.run pre).isOpen = true) (hq : quiet true post = true) :
    ((s.run (pre ++ [Op.write x] ++ post)).next).2 = some x := by
  rw [slot_run_append, slot_run_append]
  generalize s.run pre = t at hopen
  have h1 : t.run [Op.write x] = { t with v := some x } := by
    simp [Slot.run, Slot.step, Slot.write, hopen]
  rw [h1]
  have := slot_quiet_keeps { t with v := some x } post (by simpa [hopen] using hq)
  simp [Slot.next, this]


/-- **slot_once** — …and the read after that, with no accepted write in between, returns nothing. -/
theorem slot_once (s : Slot) (post : List Op) (hq : quiet (s.next.1).isOpen post = true) :
    (((s.next.1).run post).next).2 = none := by
  have := slot_quiet_keeps s.next.1 post hq
  simp [Slot.next] at this ⊢
  exact this

/-! ## C17.4  a closed sink ignores writes until it is reopened -/

/-- **closed_ignores** — a write to a closed buffer/slot is the identity… -/
theorem closed_ignores (b : Buf) (s : Slot) (x : Nat) (hb : b.isOpen = false) (hs : s.isOpen = false) :
    b.write x = b ∧ s.write x = s := by
  simp [Buf.write, Slot.write, hb, hs]

/-- **reopen_restores** — …and after `open` the next write is accepted again. -/
theorem reopen_restores (b : Buf) (s : Slot) (x : Nat) :
    (((b.step .opn).1.write x).items.getLast? = some x) ∧ (((s.step .opn).1.write x).v = some x) := by
  constructor
  · simp only [Buf.step, Buf.write]
    by_cases hf : b.items.length = b.cap <;> simp [hf]
  · simp [Slot.step, Slot.write]

/-- **closed_run_invisible** — whatever is written while closed never shows up: the accepted-writes
history skips it (so by `buf_suffix` it cannot be in the buffer). -/
theorem closed_run_invisible (ws : List Nat) : accepted false (ws.map Op.write) = [] := by
  induction ws with
  | nil => rfl
  | cons w ws ih => simpa [accepted] using ih

/-! ## non-vacuity: the hypotheses are met by concrete non-trivial states -/

example : (Buf.new 2 true).run [.write 1, .write 2, .write 3, .next, .cls, .write 9, .opn, .write 4]
    = { cap := 2, isOpen := true, items := [3, 4] } := by decide
example : 1 ≤ (Buf.new 2 true).cap ∧ (Buf.new 2 true).items.length ≤ (Buf.new 2 true).cap := by decide
example : ((Slot.new true).run ([.write 1, .next] ++ [Op.write 7] ++ [.cls, .write 8])).next.2 = some 7 := by
  decide
example : quiet true [.cls, .write 8, .opn] = true := by decide

/-- **sink_writes_are_single_critical_sections** — read from the source on every run: a write to an `EventBuffer` tests
the open flag and then, under *one* acquisition of the buffer's mutex, evicts the oldest event if the buffer is full and
appends the new one; a write to an `EventSlot` tests the open flag and, only if the sink is open, replaces the content
under the slot's lock.  This is what makes every write one step of M-SINK when several writers run concurrently (the
theorems above then hold for the order in which the writers obtain the lock), and a write to a closed sink a no-op. -/
theorem sink_writes_are_single_critical_sections :
    Extracted.sinkBufferWriteIsOneCriticalSection = true ∧ Extracted.sinkSlotWriteIgnoredWhenClosed = true := by decide

end NexoVerif.Sink
