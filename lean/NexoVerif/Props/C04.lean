/-
C04 — Run-to-quiescence: a returned step is complete, on any number of threads.

M-NET (Model/Net.lean) is the message-passing layer: a step of the simulation is a run of its transition system
from the state in which the driver's sending tasks were spawned until no transition is enabled (that is the
executors' return condition: every task is either finished or suspended on a channel), under *any* interleaving
— which covers the single-threaded executor, the multi-threaded one with any number of workers and every task
pick order.  M-TASK (Model/Task.lean) is the per-task scheduling protocol: it shows that a woken task always has a
`Runnable` somewhere (no lost wake-up at the task level).

Schedule independence of the handler invocations is proved (`handler_invocations_are_schedule_independent`): every
event gets, as ghost data, its *path* in the unfolding tree of the program (root = a model's init or a driver
request, then operation index and connection index at every hop); a completed run has handled exactly the nodes of
that tree, each once, whatever the interleaving; the same holds for the events written to sinks
(`sink_outputs_are_schedule_independent`).  The correspondence engine compares both multisets between the
single-threaded executor, the multi-threaded executor with 1..8 workers and the model's own schedule.
The return condition itself — "no transition is enabled" in M-NET — is what the multi-threaded executor's idle
detection has to establish.  M-POOL (Model/Pool.lean) is that protocol (worker loop head, pool manager, parking, the
executor thread inside `run()`) at the granularity of its atomic steps, for any number of workers and every
interleaving: `run_returns_only_when_the_pool_is_idle` and `idle_detection_never_gets_stuck` at the end of this file.
PARTIAL: sequentially consistent atomics; the abort signal, time-outs and worker panics are not in M-POOL.
M-STEAL (Model/Steal.lean, end of this file) is the bit-level core of the choice of a steal victim: `find_bit`,
`gen_bounded` and the rank closure of `ShuffledStealers::new`, over `BitVec 64`, for every input.
-/
import NexoVerif.Lemmas.NetSinks
import NexoVerif.Lemmas.TaskThm
import NexoVerif.Model.NetRun
import NexoVerif.Lemmas.PoolLive
import NexoVerif.Lemmas.InjThm
import NexoVerif.Lemmas.StealBV
import NexoVerif.Lemmas.StealThm
import NexoVerif.Extracted

namespace NexoVerif.Net
set_option linter.unusedSimpArgs false
set_option linter.unusedVariables false

/-- a state in which the executor returns: no transition is enabled -/
def Quiescent (P : Prog) (s : St) : Prop := ∀ l, step P l s = none

/-- **ok_step_is_complete** — when the run returns `Ok` (no fault, in-flight counter 0) from a quiescent state, every
computation that was triggered has finished: no task — model handler, model init or driver sending task — is left
half-way, every mailbox is empty, every message that arrived anywhere has been processed by the owner of that
mailbox, and every model of the simulation has been initialised. -/
theorem ok_step_is_complete (P : Prog) {s : St} (h : Reach P s) (hf : s.fault = none) (hq : Quiescent P s)
    (hok : s.count = 0) (hcap : ∀ d, 1 ≤ P.cap d) :
    (∀ t, (s.task t).phase ≠ .busy) ∧ (∀ m, s.mbox m = []) ∧ (∀ m, handledBy s m = arrivals s m) ∧
    (∀ m, P.isModel m = true → P.inSim m = true → m ∈ s.inits) := by
  have hempty := (count_zero_iff (reach_inv P h)).mp hok
  refine ⟨quiescent_ok_no_busy P h hf hq hok hcap, hempty, ?_, ?_⟩
  · intro m
    have := (reach_inv P h).fifo m
    rw [hempty m] at this
    simpa using this.symm
  · intro m hm hin
    apply ((reach_iinv P h).started m hm).mpr
    intro hph
    have := hq (.init m)
    simp [step, hf, hph, hm, hin] at this

/-- **never_stuck_with_nothing_queued** — "does not block forever": whenever some task is still half-way and no message
is queued anywhere, some transition is enabled — a stall (every remaining task blocked) is possible only with
messages left in mailboxes, which is exactly the situation the deadlock report covers. -/
theorem never_stuck_with_nothing_queued (P : Prog) {s : St} (h : Reach P s) (hf : s.fault = none)
    (hok : s.count = 0) (hcap : ∀ d, 1 ≤ P.cap d) (t : Nat) (hb : (s.task t).phase = .busy) :
    ∃ l s', step P l s = some s' := by
  apply Classical.byContradiction
  intro hno
  have hq : Quiescent P s := by
    intro l
    cases hs : step P l s with
    | none => rfl
    | some s' => exact absurd ⟨l, s', hs⟩ hno
  exact quiescent_ok_no_busy P h hf hq hok hcap t hb

/-- **blocked_only_on_channels** — in a quiescent state every task that is still half-way is suspended on a channel
operation: one of its current sub-sends is either waiting for room in a full mailbox or waiting for the reply to a
query it has delivered.  (Handlers await nothing else.) -/
theorem blocked_only_on_channels (P : Prog) {s : St} (hf : s.fault = none) (hq : Quiescent P s) (t : Nat)
    (hb : (s.task t).phase = .busy) :
    ∃ sub ∈ (s.task t).cur, (sub.query = true ∧ sub.st = .pushed) ∨
      (sub.st = .toPush ∧ ∃ d, sub.dst = .box d ∧ P.cap d ≤ (s.mbox d).length) := by
  cases hcur : (s.task t).cur with
  | nil =>
    cases hrest : (s.task t).rest with
    | nil =>
      have := hq (.finish t)
      simp only [step, hf, Option.isSome_none, Bool.false_eq_true, if_false, hb, hcur, hrest, and_self, if_true] at this
      split at this <;> simp at this
    | cons op ops =>
      have := hq (.start t)
      simp [step, hf, hb, hcur, hrest] at this
  | cons c cs =>
    rw [← hcur]
    by_cases hall : (s.task t).cur.all Sub.done = true
    · have := hq (.opDone t)
      simp [step, hf, hb, hcur] at this
      rw [hcur] at hall
      simp at hall
      obtain ⟨x, hx, hnd⟩ := this hall.1
      exact absurd (hall.2 x hx) (by simp [hnd])
    · obtain ⟨sub, hsub, hnd⟩ := not_all_exists _ _ hall
      refine ⟨sub, hsub, ?_⟩
      by_cases hst : sub.st = .toPush
      · right
        refine ⟨hst, ?_⟩
        obtain ⟨i, hi⟩ := mem_getElem?_idx hsub
        have := hq (.push t i)
        simp only [step, hf, Option.isSome_none, Bool.false_eq_true, if_false, hi, hst, if_true] at this
        split at this
        · simp at this
        · simp at this
        · rename_i d hd
          refine ⟨d, hd, ?_⟩
          by_cases hl : (s.mbox d).length < P.cap d
          · simp [hl] at this
          · omega
      · left
        unfold Sub.done at hnd
        by_cases hqr : sub.query = true
        · simp [hqr] at hnd
          refine ⟨hqr, ?_⟩
          cases hst' : sub.st with
          | toPush => exact absurd hst' hst
          | pushed => rfl
          | replied => exact absurd hst' hnd
        · simp [hqr] at hnd
          exact absurd hnd hst

/-- **handler_invocations_are_schedule_independent** — for models whose reactions depend only on message content (that
is what a `Prog` is): take any two executions of the same program — any interleavings, hence any executor, thread
count and task pick order — in which the driver issued the same requests (`roots`: the operation lists of its
sending tasks, in order), and which both came to rest successfully (no fault, nothing enabled, in-flight counter 0).
Then the handler invocations `(model, payload)` of the one are a permutation of those of the other: the multiset
of handler invocations is the same under every schedule.  (`XReach` is `Reach` with ghost bookkeeping that never
blocks a transition: `reach_xreach`.) -/
theorem handler_invocations_are_schedule_independent (P : Prog) {x1 x2 : St × G} (h1 : XReach P x1) (h2 : XReach P x2)
    (c1 : Completed P x1.1) (c2 : Completed P x2.1) (hcap : ∀ d, 1 ≤ P.cap d) (hroots : x1.2.roots = x2.2.roots) :
    x1.1.handledP.Perm x2.1.handledP := completed_runs_agree P h1 h2 c1 c2 hcap hroots

/-- **sink_outputs_are_schedule_independent** — under the same hypotheses the events written to event sinks,
`(sink, payload)`, of the one execution are a permutation of those of the other. -/
theorem sink_outputs_are_schedule_independent (P : Prog) {x1 x2 : St × G} (h1 : XReach P x1) (h2 : XReach P x2)
    (c1 : Completed P x1.1) (c2 : Completed P x2.1) (hcap : ∀ d, 1 ≤ P.cap d) (hroots : x1.2.roots = x2.2.roots) :
    x1.1.sinks.Perm x2.1.sinks := completed_runs_agree_on_sinks P h1 h2 c1 c2 hcap hroots

/-- **completed_run_is_the_unfolding_tree** — the characterisation behind it: in a completed run the handled events,
tagged with their paths, are exactly the nodes of the unfolding tree of the program from the driver's requests —
every handled event is a node (nothing invented), every node has been handled (nothing lost or left half-way), and
no node twice. -/
theorem completed_run_is_the_unfolding_tree (P : Prog) {x : St × G} (h : XReach P x) (c : Completed P x.1)
    (hcap : ∀ d, 1 ≤ P.cap d) :
    (evs x).Nodup ∧ ∀ π m p, (π, m, p) ∈ evs x ↔ InTree P x.2.roots π m p :=
  ⟨evs_nodup P h, fun π m p => ⟨evs_sound P h π m p, evs_complete P h c hcap π m p⟩⟩

/-- every execution of M-NET has a ghost extension (the ghost state never blocks) -/
theorem every_execution_has_a_ghost_extension (P : Prog) {s : St} (h : Reach P s) : ∃ g, XReach P (s, g) :=
  reach_xreach P h

/-- **ok_iff_nothing_queued** — the run returns `Ok` exactly when nothing is queued: the in-flight counter is 0 iff
every mailbox is empty (so `Ok` is never returned while a message is waiting to be processed). -/
theorem ok_iff_nothing_queued (P : Prog) {s : St} (h : Reach P s) : s.count = 0 ↔ ∀ m, s.mbox m = [] :=
  count_zero_iff (reach_inv P h)

/-- non-vacuity: the example run ends in a quiescent state with counter 0 — all 9 candidate labels of its 2 tasks are
disabled there (checked by evaluation for the labels the scheduler of `runQ` tries). -/
example : (runLabels exProg exLabels St.init).map (fun s => (s.count, quiescent exProg [0, 1] s)) = some (0, true) := by
  decide

end NexoVerif.Net

namespace NexoVerif.TaskM

/-- **woken_task_has_a_runnable** — task level: in every reachable state of a live task, under every interleaving of
wakers, workers and cancellation, the state word says "a `Runnable` exists" (polling phase with a non-zero wake
count, or closed) *iff* there is one — queued at some executor or being run: a wake-up is never lost between the
waker and the executor queues, and a task with nothing to do holds no `Runnable` (so an idle pool really is idle). -/
theorem woken_task_has_a_runnable {s : S} (h : Reach s) (hl : s.live = true) : (s.run ≠ .none ↔ s.rex = true) := by
  have := runnable_iff_word h hl
  constructor
  · intro hr
    cases hx : s.rex with
    | true => rfl
    | false => exact absurd (this.mpr hx) hr
  · intro hx hr
    rw [this.mp hr] at hx; simp at hx

end NexoVerif.TaskM

/-! ## Idle detection of the multi-threaded executor (M-POOL) -/
namespace NexoVerif.Pool

/-- read from `run_local_worker` (same definition as in Props/C06) -/
def publishesFirst' : Bool :=
  Extracted.poolWorkerLoopHead.head? == some "update_msg_count" && Extracted.poolWorkerFlushes == 1

/-- **run_returns_only_when_the_pool_is_idle** — in every execution of the protocol, with any number of workers: when
`run()` (or `new()`) sees `pool_is_idle()`, the injector is empty, every worker's local queue and fast slot are empty,
no worker is running a task or searching for one (each is parked or about to unpark the executor thread), and every
thread-local message count has been published.  Together with `woken_task_has_a_runnable` (a task with something to
do has a `Runnable` in one of these queues) this is the return condition of a step in M-NET. -/
theorem run_returns_only_when_the_pool_is_idle {n : Nat} {s s' : St} (hr : Reach n publishesFirst' s)
    (hs : step .mCheck s = some s') :
    s.inj = 0 ∧ ∀ w, w < s.n → s.loc w = 0 ∧ s.tl w = 0 ∧ (s.wpc w = .parked ∨ s.wpc w = .lastUnpark) := by
  have : publishesFirst' = true := by decide
  rw [this] at hr
  have h := idle_when_seen_idle hr hs
  exact ⟨h.inj, h.workers⟩

/-- **idle_detection_never_gets_stuck** — "does not block forever", protocol level: every reachable state has a step;
and while the executor thread is about to park inside `run()` with no unpark token pending, some *worker* has a step
to take — one marked active (a parked one has its own token pending), or the one about to unpark the executor
thread.  So `run()` can only wait while a worker still has something to do: a wake-up of the executor thread or of a
worker is never lost. -/
theorem idle_detection_never_gets_stuck {n : Nat} (hn : 0 < n) {s : St} (hr : Reach n publishesFirst' s) :
    (∃ l, (step l s).isSome = true) ∧
    (s.mpc = .park → s.mainTok = false → ∃ l w, l.worker = some w ∧ (step l s).isSome = true) := by
  have : publishesFirst' = true := by decide
  rw [this] at hr
  exact ⟨never_stuck hn hr, main_never_waits_for_nobody hn hr⟩

/-- **tasks_left_in_the_injector_are_seen** — a task pushed to the injector while every worker is busy or going idle
is not left behind: whenever the injector is non-empty inside `run()`, some worker is marked active (and the last one
to go idle re-checks the injector before it clears the flags: `Inv.lastInj`). -/
theorem tasks_left_in_the_injector_are_seen {n : Nat} {s : St} (hr : Reach n publishesFirst' s) (hi : 0 < s.inj)
    (hm : s.mpc ≠ .outside) : ∃ w, w < s.n ∧ s.active w = true := by
  have : publishesFirst' = true := by decide
  rw [this] at hr
  rcases (reach_inv hr).injCovered hi with h | h
  · exact h
  · exact absurd h hm

end NexoVerif.Pool

/-! ## The injector queue (M-INJ)

M-POOL treats the injector as a counter that is tested for zero in one step.  M-INJ is `injector.rs` itself: the
mutex-protected vector of buckets and the advisory `is_empty` flag that the workers (and the last worker before it
declares the pool idle) read without the lock.  Every operation runs under the mutex, so the statements below hold
whenever no thread is inside an operation. -/
namespace NexoVerif.Inj

/-- the injector as created, with bucket capacity `cap ≥ 1` -/
def fresh (cap : Nat) : St := { cap := cap }

theorem fresh_inv (cap : Nat) (hc : 0 < cap) : Inv (fresh cap) :=
  ⟨rfl, by intro b hb; simp [fresh] at hb, hc⟩

/-- **injector_flag_is_exact** — after any sequence of `insert_task` / `push_bucket` (non-empty buckets of at most
`cap` tasks) / `pop_bucket`: the flag read by `is_empty()` says "empty" exactly when no task is held, `pop_bucket`
answers `None` exactly then, and no bucket in the queue is empty or above the capacity. -/
theorem injector_flag_is_exact (cap : Nat) (hc : 0 < cap) (ops : List Op) (ho : ∀ o ∈ ops, o.ok cap) :
    ((run (fresh cap) ops).flag = true ↔ held (run (fresh cap) ops) = []) ∧
    ((popBucket (run (fresh cap) ops)).2 = none ↔ held (run (fresh cap) ops) = []) ∧
    (∀ b ∈ (run (fresh cap) ops).inner, 0 < b.length ∧ b.length ≤ cap) := by
  have hi : Inv (run (fresh cap) ops) := run_inv (fresh cap) ops (fresh_inv cap hc) ho
  have hcap : (run (fresh cap) ops).cap = cap := run_cap (fresh cap) ops
  refine ⟨flag_iff_held_nil _ hi, pop_none_iff_empty _ hi, ?_⟩
  intro b hb
  have := hi.sizes b hb
  rw [hcap] at this; exact this

/-- **injector_neither_loses_nor_duplicates_a_task** — the tasks put in by a sequence of operations are, as a multiset,
the tasks handed out by its `pop_bucket` calls plus the tasks still held. -/
theorem injector_neither_loses_nor_duplicates_a_task (cap : Nat) (hc : 0 < cap) (ops : List Op)
    (ho : ∀ o ∈ ops, o.ok cap) :
    List.Perm (inps ops) (outs (fresh cap) ops ++ held (run (fresh cap) ops)) := by
  have := run_conserves (fresh cap) ops (fresh_inv cap hc) ho
  simpa [held, fresh] using this

/-- **injector_operations_are_critical_sections** — read from the source on every run: `pop_bucket`, `push_bucket` and
`insert_task` change the vector and the emptiness flag inside one critical section each (the mutex guard lives to the
end of the function), which is what makes an operation one step of M-INJ under concurrent workers. -/
theorem injector_operations_are_critical_sections : Extracted.injOperationsAreCriticalSections = true := by decide

-- non-vacuity: capacity 3, four single tasks (the full bucket is swapped for a new one), one pop
example : (run (fresh 3) [.insert 1, .insert 2, .insert 3, .insert 4, .pop]).inner = [[4]] ∧
    out (run (fresh 3) [.insert 1, .insert 2, .insert 3, .insert 4]) .pop = [1, 2, 3] := by decide

end NexoVerif.Inj

/-! ### M-STEAL — whom a searching worker steals from first (`find_bit`, `gen_bounded`, `ShuffledStealers::new`) -/
namespace NexoVerif.Steal

/-- **steal_sources_are_the_modelled_ones** — read from the source on every run: the bodies of `find_bit`, `sum_masks`,
`Rng::gen_bounded` and the rank closure of `ShuffledStealers::new` are, token for token, the ones M-STEAL was written
from; the masks of the model are the ones `sum_masks` computes. -/
theorem steal_sources_are_the_modelled_ones :
    Extracted.findBitSrc = findBitSrcModelled ∧ Extracted.sumMasksSrc = sumMasksSrcModelled ∧
    Extracted.genBoundedSrc = genBoundedSrcModelled ∧ Extracted.stealRankSrc = stealRankSrcModelled ∧
    Extracted.stealNewSrc = stealNewSrcModelled ∧
    (M0 = maskFormula 0 ∧ M1 = maskFormula 1 ∧ M2 = maskFormula 2 ∧ M3 = maskFormula 3 ∧
      M4 = maskFormula 4 ∧ M5 = maskFormula 5) :=
  ⟨rfl, rfl, rfl, rfl, rfl, masks_are_formula⟩

/-- **find_bit_returns_the_set_bit_of_the_requested_rank** — for every 64-bit value and every rank between 1 and its
number of set bits (counted bit by bit, `popNaive`): the returned position is below 64, the bit there is set, and
exactly `rank - 1` set bits lie below it.  (Proved by `bv_decide`: see the axioms recorded for this theorem.) -/
theorem find_bit_returns_the_set_bit_of_the_requested_rank (v r : BitVec 64)
    (h1 : 1#64 ≤ r) (h2 : r ≤ popNaive v) :
    findBit v (fun _ => r) < 64#64 ∧
    (v >>> findBit v (fun _ => r)) &&& 1#64 = 1#64 ∧
    popNaive (v &&& ((1#64 <<< findBit v (fun _ => r)) - 1#64)) + 1#64 = r := by
  have h := findBit_spec v r h1 (by rw [popCount_eq]; exact h2)
  rw [popCount_eq] at h
  exact h

/-- **gen_bounded_is_below_its_bound** — for every 64-bit output of `gen` and every bound > 0 (kernel-only proof). -/
theorem gen_bounded_is_below_its_bound (r b : Nat) (hr : r < 2 ^ 64) (hb : 0 < b) : genBounded r b < b :=
  genBounded_lt r b hr hb

/-- **first_steal_candidate_is_a_candidate** — whatever the random number: for a non-empty candidate set the worker
index `ShuffledStealers::new` starts from is below 64 and is one of the candidates (so `stealers[..]` is indexed by an
active worker's identifier and never by the meaningless position that `find_bit` returns for a rank out of range). -/
theorem first_steal_candidate_is_a_candidate (c : BitVec 64) (r : Nat) (hc : c ≠ 0#64) (hr : r < 2 ^ 64) :
    firstCandidate c r < 64#64 ∧ (c >>> firstCandidate c r) &&& 1#64 = 1#64 := by
  unfold firstCandidate
  rw [findBit_rank_only]
  have hp := popCount_ne_zero c hc
  have hn1 : 0 < (popCount c).toNat := by
    have := BitVec.le_def.1 hp
    simp at this
    omega
  have hb := genBounded_lt r _ hr hn1
  have hlt : (popCount c).toNat < 2 ^ 64 := (popCount c).isLt
  have hmod : (BitVec.ofNat 64 (genBounded r (popCount c).toNat + 1)).toNat
      = genBounded r (popCount c).toNat + 1 := by
    rw [BitVec.toNat_ofNat]; apply Nat.mod_eq_of_lt; omega
  have h1 : 1#64 ≤ BitVec.ofNat 64 (genBounded r (popCount c).toNat + 1) := by
    rw [BitVec.le_def, hmod]; simp
  have h2 : BitVec.ofNat 64 (genBounded r (popCount c).toNat + 1) ≤ popCount c := by
    rw [BitVec.le_def, hmod]; omega
  have h := findBit_spec c _ h1 h2
  exact ⟨h.1, h.2.1⟩

/-- **first_candidate_becomes_the_lsb_of_the_rotated_set** — `ShuffledStealers::new` with up to 63 workers: for every
candidate set within the `n` low bits and every candidate `pos < n`, the rotated set has its LSB set (the iterator's
first item is `stealers[pos]`) and stays within the `n` low bits.  (`bv_decide`.) -/
theorem first_candidate_becomes_the_lsb_of_the_rotated_set (c pos n : BitVec 64) (hn : n ≤ 63#64) (hpos : pos < n)
    (hc : c >>> n = 0#64) (hbit : (c >>> pos) &&& 1#64 = 1#64) :
    (rotate c pos n) &&& 1#64 = 1#64 ∧ (rotate c pos n) >>> n = 0#64 :=
  rotate_spec c pos n hn hpos hc hbit

/-- **rotation_shift_is_below_the_word_width_up_to_63_workers** — the left shift of the rotation is by `n - pos`;
with at most 63 workers (the property quantifies over 1..16) it is a legal shift amount for a 64-bit word. -/
theorem rotation_shift_is_below_the_word_width_up_to_63_workers (n pos : Nat) (hn : n ≤ 63) :
    rotateShift n pos < 64 := by unfold rotateShift; omega

/-- **rotation_shift_equals_the_word_width_with_64_workers** — OBSERVATION outside the quantifier of C04 (DESIGN 10.9):
with the maximal pool of 64 workers and worker 0 drawn as the first candidate the shift amount is the word width, which
Rust rejects at run time when overflow checks are on (reproduced on the real code: a debug build with 64 threads panics
in `ShuffledStealers::new`, "attempt to shift left with overflow") and treats as a shift by 0 otherwise. -/
theorem rotation_shift_equals_the_word_width_with_64_workers : rotateShift 64 0 = 64 := by decide

-- non-vacuity / tests (labelled as tests): candidates 0b10110, ranks 1..3 give positions 1, 2, 4
example : findBit 0b10110#64 (fun _ => 1#64) = 1#64 ∧ findBit 0b10110#64 (fun _ => 2#64) = 2#64 ∧
    findBit 0b10110#64 (fun _ => 3#64) = 4#64 ∧ popCount 0b10110#64 = 3#64 ∧ genBounded (2 ^ 63) 3 = 1 ∧
    rotate 0b10110#64 2#64 5#64 = 0b10101#64 := by decide

end NexoVerif.Steal
