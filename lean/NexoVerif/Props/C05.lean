/-
C05 — Model isolation: one computation at a time per model.

A model, its mailbox receiver and its context are owned by exactly one future — the model task created by
`add_model` (`init(...).await` followed by the `recv` loop) — and a future is a sequential program: its handlers
can only overlap if the *task* is polled by two threads at once, or polled again while a poll is in progress.
That is excluded by M-TASK for every interleaving of wakers, workers, stealing and cancellation (the executors
only move `Runnable`s around; whoever holds the `Runnable` polls).  Ownership of the model by one future is
Rust's type system (trusted base).  The correspondence runs the real task handles (including re-entrant wakes
from inside `poll`) and, in the `sched` engine, real benches on 2–8 worker threads with a busy flag per model.
-/
import NexoVerif.Lemmas.TaskRunLemmas
import NexoVerif.Extracted

namespace NexoVerif.TaskM
set_option linter.unusedSimpArgs false
set_option linter.unusedVariables false

/-- **at_most_one_runnable** — in every reachable state there is at most one `Runnable` (the model has a single
`Runnable` program counter and flags any attempt to create a second one as `bad`; `bad` is never reached), and its
existence is exactly what the state word says. -/
theorem at_most_one_runnable {s : S} (h : Reach s) :
    s.bad = false ∧ (s.live = true → (s.run = .none ↔ s.rex = false)) :=
  ⟨(reach_inv h).nobad, (reach_inv h).rexIff⟩

/-- **only_the_runnable_polls** — the only step that starts a poll is the `Runnable`'s `rPollBegin`, enabled only when the
`Runnable` is in its `loaded` state (not already polling): waking (by value or reference, from any thread),
cloning or dropping wakers, cancelling, polling or dropping the promise, finalisation — none of them polls the
future.  Hence polls of one task never overlap and cancellation never runs model code. -/
theorem only_the_runnable_polls (l : Label) (s s' : S) (hs : step l s = some s') (hp : s'.polls ≠ s.polls) :
    l = .rPollBegin ∧ s.run = .loaded ∧ s'.run = .polling ∧ s'.polls = s.polls + 1 := by
  unfold step at hs
  split at hs
  · simp at hs
  · cases l <;> simp only at hs
    all_goals
      first
        | (unfold stepWClone at hs; grind)
        | (unfold stepWWakeRef S.wakeCore at hs; grind)
        | (unfold stepWWakeVal S.wakeCore at hs; grind)
        | (unfold stepWDrop at hs; grind)
        | (unfold stepRStart at hs; grind)
        | (unfold stepRPollBegin S.oops at hs; grind)
        | (unfold stepRPollPending at hs; grind)
        | (unfold stepRPollReady at hs; grind)
        | (unfold stepRPollPanic at hs; grind)
        | (unfold stepRReadyA S.oops at hs; grind)
        | (unfold stepRReadyB at hs; grind)
        | (unfold stepRReadyC S.oops at hs; grind)
        | (unfold stepRReadyD at hs; grind)
        | (unfold stepRPend S.oops at hs; grind)
        | (unfold stepRDropQueued at hs; grind)
        | (unfold stepRCancelA S.oops at hs; grind)
        | (unfold stepRCancelB at hs; grind)
        | (unfold stepTCancel at hs; grind)
        | (unfold stepTDropFut S.oops at hs; grind)
        | (unfold stepTDecRef at hs; grind)
        | (unfold stepTDrop at hs; grind)
        | (unfold stepPPoll at hs; grind)
        | (unfold stepPTake S.oops at hs; grind)
        | (unfold stepPDrop at hs; grind)
        | (unfold stepFin S.oops at hs; grind)

/-- **runnable_created_only_by_first_wake** — a wake-up creates (and schedules) a `Runnable` only when none exists:
the wake count goes from 0 to 1 in the polling, non-cancelled phase; every other wake-up only increments the
count.  So waking, stealing, re-scheduling or cancelling never yields a second concurrent computation of the
task. -/
theorem runnable_created_only_by_first_wake {s : S} (h : Reach s) (hl : s.live = true) :
    (s.wakeCore.run ≠ s.run → s.run = .none ∧ s.wake = 0 ∧ s.polling = true ∧ s.closed = false ∧
      s.wakeCore.run = .queued) := by
  have i := reach_inv h
  intro hne
  unfold S.wakeCore at hne ⊢
  split at hne
  · rename_i hc
    simp at hc
    split at hne
    · simp at hne
    · rename_i hr
      simp at hr
      simp [hc, hr]
  · simp at hne

/-- **a_wake_decides_with_its_own_increment** — what makes `runnable_created_only_by_first_wake` a statement about the
code: `Task::wake` is one `fetch_add` whose *returned* state decides whether a `Runnable` is created, `clone_waker` one
`fetch_add`, `Runnable::run` re-checks with a `fetch_sub` after a `Pending` poll, `CancelToken::cancel` decides inside one
compare-and-swap loop (no separately loaded, cached answer to "does a Runnable exist?") — read from the source on every run
(a decision taken on a separately loaded, possibly stale state word lets two wakers both create a `Runnable`). -/
theorem a_wake_decides_with_its_own_increment :
    Extracted.taskOpsTaskWake = [.rmw "state" "fetch_add" .release] ∧
    Extracted.taskOpsTaskCloneWaker = [.rmw "state" "fetch_add" .relaxed] ∧
    Extracted.taskOpsRunnableRun = [.load "state" .acquire, .fence .acquire, .cas "state" .release .relaxed,
      .rmw "state" "fetch_and" .release, .fence .acquire, .rmw "state" "fetch_sub" .acqrel] ∧
    Extracted.taskOpsTokenCancel = [.cas "state" .acqrel .relaxed, .fence .acquire, .rmw "state" "fetch_sub" .release,
      .fence .acquire] := by
  refine ⟨by decide, by decide, by decide, by decide⟩

/-! ## non-vacuity -/
example : (step .rPollBegin { spawn with run := .loaded }).map (fun s => (s.run, s.polls)) = some (.polling, 1) := by decide

end NexoVerif.TaskM
