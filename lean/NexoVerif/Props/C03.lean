/-
C03 — Exactly-once delivery to every connected recipient.

Theorems about M-NET (Model/Net.lean): every state reachable by *any* interleaving of the atomic steps of any
number of tasks (model inits, handlers, driver/scheduler sending tasks), for every program (connection graph after
map/filter, handler scripts), every mailbox capacity, no bound on the number of steps.  A "message" is one
accepted (connection, payload) pair of a port operation: it gets a fresh event id when the operation starts.
-/
import NexoVerif.Lemmas.NetInit

namespace NexoVerif.Net
set_option linter.unusedSimpArgs false
set_option linter.unusedVariables false

/-- **mailbox_conservation** — at every moment, for every mailbox, what arrived is exactly what its model has
processed so far followed by what is still queued, in that order: nothing is lost, duplicated, reordered or
invented between arrival and processing, whether or not the sender had to wait for room. -/
theorem mailbox_conservation (P : Prog) {s : St} (h : Reach P s) (m : Nat) :
    arrivals s m = handledBy s m ++ (s.mbox m).map (·.eid) := (reach_inv P h).fifo m

/-- **no_message_arrives_twice** — event ids in the global arrival log are pairwise distinct: one accepted
(connection, message) pair is enqueued at most once, in one mailbox. -/
theorem no_message_arrives_twice (P : Prog) {s : St} (h : Reach P s) : (s.arrLog.map (·.2)).Nodup :=
  (reach_finv P h).arrNodup

/-- **processed_at_most_once** — no model processes the same message twice, and no two models process the same
message. -/
theorem processed_at_most_once (P : Prog) {s : St} (h : Reach P s) (m : Nat) : (handledBy s m).Nodup := by
  have hn : (arrivals s m).Nodup := by
    have := no_message_arrives_twice P h
    unfold arrivals
    exact (List.Nodup.sublist (List.Sublist.map _ List.filter_sublist) this)
  exact List.Nodup.sublist (handled_prefix (reach_inv P h) m).sublist hn

/-- **nothing_invented** — whatever a model processes was sent to *that* model's mailbox by a port operation
(after the connection's map/filter): "and by nobody else". -/
theorem nothing_invented (P : Prog) {s : St} (h : Reach P s) {m e : Nat} (hh : (m, e) ∈ s.handled) :
    (Dst.box m, e) ∈ s.sent :=
  (reach_sinv P h).arr m e (handled_arrived (reach_inv P h) hh)

/-- **completed_run_processed_everything** — when the run completes successfully (the in-flight counter is 0,
which is what `Ok` means) every message that arrived in a mailbox has been processed exactly once by the owner
of that mailbox: the processing log of each mailbox *is* its arrival log.  `boxes` is any duplicate-free list of
mailboxes containing every mailbox that ever received something. -/
theorem completed_run_processed_everything (P : Prog) {s : St} (h : Reach P s) (boxes : List Nat)
    (hn : boxes.Nodup) (hc : ∀ x ∈ s.arrLog, x.1 ∈ boxes) (hok : s.count = 0) (m : Nat) :
    handledBy s m = arrivals s m ∧ (handledBy s m).Nodup := by
  have i := reach_inv P h
  have hq := count_eq_queued i boxes hn hc
  rw [hok] at hq
  have hz : (boxes.map (fun m => (s.mbox m).length)).sum = 0 := by omega
  have hempty : s.mbox m = [] := by
    by_cases hm : m ∈ boxes
    · have : ∀ b ∈ boxes, (s.mbox b).length = 0 := by
        clear hq hn hc hm
        induction boxes with
        | nil => simp
        | cons b bs ih =>
          simp only [List.map_cons, List.sum_cons] at hz
          intro x hx; simp at hx
          rcases hx with rfl | hx
          · omega
          · exact ih (by omega) x hx
      exact List.eq_nil_of_length_eq_zero (this m hm)
    · -- a mailbox that never received anything is empty
      have ha : arrivals s m = [] := by
        unfold arrivals
        simp only [List.map_eq_nil_iff, List.filter_eq_nil_iff, beq_iff_eq]
        intro x hx hxm; exact hm (hxm ▸ hc x hx)
      have := i.fifo m
      rw [ha] at this
      have h2 := congrArg List.length this
      simp at h2
      exact List.eq_nil_of_length_eq_zero (by omega)
  have := i.fifo m
  rw [hempty] at this
  simp at this
  exact ⟨this.symm, processed_at_most_once P h m⟩

/-- **sends_are_fresh** — a port operation creates one sub-send per accepting connection, each with an event id
never used before (this is what makes "exactly once" meaningful in the log-based statements above). -/
theorem sends_are_fresh (P : Prog) {s : St} (h : Reach P s) (t : Nat) :
    ((s.task t).cur.map (·.eid)).Nodup ∧ ∀ e ∈ (s.task t).cur.map (·.eid), e < s.nextEid :=
  ⟨(reach_finv P h).nodup t, (reach_finv P h).bound t⟩

/-- non-vacuity: a two-model program in which model 0's init sends to model 1 reaches a completed state with one
processed message. -/
example : ∃ s, Reach exProg s ∧ s.count = 0 ∧ s.handled.length = 1 := by
  cases hfin : runLabels exProg exLabels St.init with
  | none => exact absurd hfin (by decide)
  | some s1 =>
    refine ⟨s1, reach_runLabels exProg exLabels Reach.init hfin, ?_, ?_⟩
    · have : (runLabels exProg exLabels St.init).map (·.count) = some 0 := by decide
      rw [hfin] at this; simpa using this
    · have : (runLabels exProg exLabels St.init).map (·.handled.length) = some 1 := by decide
      rw [hfin] at this; simpa using this

end NexoVerif.Net
