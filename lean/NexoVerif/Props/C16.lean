/-
C16 — Every model is initialised exactly once, before it handles anything.

Theorems about M-NET (Model/Net.lean): a model's task is `init` followed by the receive loop; sub-models are
ordinary entries of the flattened model list (the hierarchy only contributes the qualified name, checked by the
correspondence engine through `Context::name()` and the names in Deadlock/Panic reports).
-/
import NexoVerif.Lemmas.NetInit
import NexoVerif.Lemmas.NamesThm
import NexoVerif.Extracted

namespace NexoVerif.Net
set_option linter.unusedSimpArgs false
set_option linter.unusedVariables false

/-- **init_at_most_once** — no model's init starts twice, and only models added to the simulation are initialised. -/
theorem init_at_most_once (P : Prog) {s : St} (h : Reach P s) :
    s.inits.Nodup ∧ ∀ m ∈ s.inits, P.isModel m = true ∧ P.inSim m = true :=
  ⟨(reach_iinv P h).once, (reach_iinv P h).initsOk⟩

/-- **init_before_any_message** — a model pops a message only when its init has *completed*: at the moment of the
delivery its init is in the log and its task is idle (it is `busy` from the start of init until init returns). -/
theorem init_before_any_message (P : Prog) {s s' : St} (h : Reach P s) {m : Nat}
    (hs : step P (.deliver m) s = some s') : m ∈ s.inits ∧ (s.task m).phase = .idle := by
  have i := reach_iinv P h
  have hidle : (s.task m).phase = .idle := by
    unfold step at hs
    split at hs
    · simp at hs
    · simp only at hs
      split at hs
      · assumption
      · simp at hs
  exact ⟨(i.started m (i.idleModel m hidle)).mpr (by rw [hidle]; simp), hidle⟩

/-- **handled_implies_initialised** — every model that has processed anything has been initialised. -/
theorem handled_implies_initialised (P : Prog) {s : St} (h : Reach P s) {m e : Nat} (hh : (m, e) ∈ s.handled) :
    m ∈ s.inits := (reach_iinv P h).handledInit m e hh

/-- **early_messages_are_kept** — messages sent to a model before (or while) it is initialised stay in its mailbox,
in order, until it processes them: the conservation law holds regardless of the phase of the receiving model. -/
theorem early_messages_are_kept (P : Prog) {s : St} (h : Reach P s) (m : Nat)
    (hni : (s.task m).phase = .notInit ∨ m ∉ s.inits) (hm : P.isModel m = true) :
    handledBy s m = [] ∧ arrivals s m = (s.mbox m).map (·.eid) := by
  have i := reach_iinv P h
  have hnot : m ∉ s.inits := by
    rcases hni with h1 | h1
    · intro hin; exact ((i.started m hm).mp hin) h1
    · exact h1
  have hh : handledBy s m = [] := by
    cases hb : handledBy s m with
    | nil => rfl
    | cons e r =>
      have : e ∈ handledBy s m := by rw [hb]; simp
      exact absurd (i.handledInit m e (mem_handledBy.mp this)) hnot
  have := (reach_inv P h).fifo m
  rw [hh] at this
  exact ⟨hh, by simpa using this⟩

/-- **all_models_initialised_at_quiescence** — when nothing more can run (which is when `SimInit::init` returns)
and no fault occurred, every model added to the simulation has been initialised: with `init_at_most_once`, exactly
once. -/
theorem all_models_initialised_at_quiescence (P : Prog) {s : St} (h : Reach P s) (hf : s.fault = none)
    (hq : ∀ l, step P l s = none) (m : Nat) (hm : P.isModel m = true) (hin : P.inSim m = true) :
    m ∈ s.inits ∧ s.inits.Nodup := by
  have i := reach_iinv P h
  have hmem : m ∈ s.inits := by
    apply (i.started m hm).mpr
    intro hph
    have := hq (.init m)
    simp [step, hf, hph, hm, hin] at this
  exact ⟨hmem, i.once⟩

/-- non-vacuity: in the example run both models are initialised and model 1 has processed the message sent by
model 0's init -/
example : ∃ s, Reach exProg s ∧ s.inits = [0, 1] ∧ s.handled = [(1, 0)] := by
  cases hfin : runLabels exProg exLabels St.init with
  | none => exact absurd hfin (by decide)
  | some s1 =>
    have hc : (runLabels exProg exLabels St.init).map (fun s => (s.inits, s.handled)) = some ([0, 1], [(1, 0)]) := by decide
    rw [hfin] at hc
    simp only [Option.map_some, Option.some.injEq, Prod.mk.injEq] at hc
    exact ⟨s1, reach_runLabels exProg _ Reach.init hfin, hc.1, hc.2⟩

end NexoVerif.Net

/-! ## model names in error reports (M-NAMES)

"A sub-model is known as `parent.child` in error reports": identifiers, the table of names and the list of observers, for
every bench — any number of top-level models, any depth and shape of sub-model hierarchies. -/

namespace NexoVerif.Names

/-- **names_program_shape** — what M-NAMES takes from the source, read on every run: in `simulation::add_model` the observer
is pushed first, then `build` runs (and adds the sub-models), then the identifier is taken as `model_names.len()` and the
name pushed right after it, and the future is spawned with that identifier; `add_submodel` is `add_model` under
`parent.name` on the same tables; the deadlock report lists `observers`' own pairs; panic / no-recipient reports look up
`model_names[model_id]`. -/
theorem names_program_shape :
    Extracted.namesIdTakenWhenNameIsPushed = true ∧ Extracted.namesSubmodelIsQualified = true ∧
    Extracted.namesTopLevelAsGiven = true ∧ Extracted.namesDeadlockUsesObserverPairs = true ∧
    Extracted.namesErrorLooksUpById = true := by decide

/-- **every_model_is_reported_under_its_own_qualified_name** — for every bench: every model future is spawned with an
identifier whose entry in the table of names is that model's own qualified name (`top`, `top.sub`, `top.sub.leaf`, …), no
two models share an identifier, and the three tables have one entry per model. -/
theorem every_model_is_reported_under_its_own_qualified_name (bench : List Proto) :
    let r := addTop false {} bench
    (∀ q id, (q, id) ∈ r.spawned → r.names[id]? = some q) ∧ (r.spawned.map Prod.snd).Nodup ∧
    r.spawned.map Prod.fst = r.names ∧ r.spawned.length = r.names.length := by
  intro r
  have i : Inv r := addTop_inv {} bench Inv.empty
  refine ⟨fun q id h => i.lookup h, i.ids_distinct, i.fst, ?_⟩
  have := congrArg List.length i.fst
  simpa using this

/-- **observers_parents_first_names_sub_models_first** — adding a model appends the qualified names of its hierarchy to
the observers in pre-order (the model, then its sub-models) and to the table of names in post-order (its sub-models, then
the model): the two are different orders of the same names, so only the pairs stored in `observers` itself name the
mailboxes of a deadlock report correctly. -/
theorem observers_parents_first_names_sub_models_first (r : Reg) (qual : String) (p : Proto) :
    (addModel false r qual p).observers = r.observers ++ pre qual p ∧
    (addModel false r qual p).names = r.names ++ post qual p := addModel_order false r qual p

/-- **the_two_ways_to_misname_a_model** — taking the identifier before `build` gives a model with sub-models the slot of
its first descendant (`top` is reported as `top.sub`); pairing observers with the table of names position by position
pairs `top`'s mailbox with the name `top.sub`. -/
theorem the_two_ways_to_misname_a_model :
    ((addTop true {} exBench).spawned = [("top.sub", 0), ("top", 0), ("other", 2)] ∧
     (addTop true {} exBench).names[0]? = some "top.sub") ∧
    ((addTop false {} exBench).observers = ["top", "top.sub", "other"] ∧
     (addTop false {} exBench).names = ["top.sub", "top", "other"]) :=
  ⟨⟨id_taken_before_build_misnames_the_parent.1, id_taken_before_build_misnames_the_parent.2.2⟩,
    observers_and_names_are_in_different_orders⟩

-- non-vacuity: a three-level hierarchy
example : (addTop false {} [.node "a" [.node "b" [.node "c" []], .node "" []]]).spawned =
    [("a.b.c", 0), ("a.b", 1), ("a.<unknown>", 2), ("a", 3)] := by decide

end NexoVerif.Names
