/-
C16 — Every model is initialised exactly once, before it handles anything.

Theorems about M-NET (Model/Net.lean): a model's task is `init` followed by the receive loop; sub-models are
ordinary entries of the flattened model list (the hierarchy only contributes the qualified name, checked by the
correspondence engine through `Context::name()` and the names in Deadlock/Panic reports).
-/
import NexoVerif.Lemmas.NetInit

namespace NexoVerif.Net
set_option linter.unusedSimpArgs false
set_option linter.unusedVariables false

/-- **init_at_most_once** — no model's init starts twice, and only models added to the simulation are initialised. -/
theorem init_at_most_once (P : Prog) {s : St} (h : Reach P s) :
    s.inits.Nodup ∧ ∀ m ∈ s.inits, P.isModel m = true ∧ P.inSim m = true :=
  ⟨(reach_iinv P h).once, (reach_iinv P h).initsOk⟩

/-- **init_before_any_message** — a model pops a message only when its init has *completed*: at the moment of the
delivery its init is in the log and its task is idle (it is `busy` from the start of init until init returns). -/
theorem init_before_any_message (P : Prog) {s s' : St} (h : Reach P s) {m : Nat}
    (hs : step P (.deliver m) s = some s') : m ∈ s.inits ∧ (s.task m).phase = .idle := by
  have i := reach_iinv P h
  have hidle : (s.task m).phase = .idle := by
    unfold step at hs
    split at hs
    · simp at hs
    · simp only at hs
      split at hs
      · assumption
      · simp at hs
  exact ⟨(i.started m (i.idleModel m hidle)).mpr (by rw [hidle]; simp), hidle⟩

/-- **handled_implies_initialised** — every model that has processed anything has been initialised. -/
theorem handled_implies_initialised (P : Prog) {s : St} (h : Reach P s) {m e : Nat} (hh : (m, e) ∈ s.handled) :
    m ∈ s.inits := (reach_iinv P h).handledInit m e hh

/-- **early_messages_are_kept** — messages sent to a model before (or while) it is initialised stay in its mailbox,
in order, until it processes them: the conservation law holds regardless of the phase of the receiving model. -/
theorem early_messages_are_kept (P : Prog) {s : St} (h : Reach P s) (m : Nat)
    (hni : (s.task m).phase = .notInit ∨ m ∉ s.inits) (hm : P.isModel m = true) :
    handledBy s m = [] ∧ arrivals s m = (s.mbox m).map (·.eid) := by
  have i := reach_iinv P h
  have hnot : m ∉ s.inits := by
    rcases hni with h1 | h1
    · intro hin; exact ((i.started m hm).mp hin) h1
    · exact h1
  have hh : handledBy s m = [] := by
    cases hb : handledBy s m with
    | nil => rfl
    | cons e r =>
      have : e ∈ handledBy s m := by rw [hb]; simp
      exact absurd (i.handledInit m e (mem_handledBy.mp this)) hnot
  have := (reach_inv P h).fifo m
  rw [hh] at this
  exact ⟨hh, by simpa using this⟩

/-- **all_models_initialised_at_quiescence** — when nothing more can run (which is when `SimInit::init` returns)
and no fault occurred, every model added to the simulation has been initialised: with `init_at_most_once`, exactly
once. -/
theorem all_models_initialised_at_quiescence (P : Prog) {s : St} (h : Reach P s) (hf : s.fault = none)
    (hq : ∀ l, step P l s = none) (m : Nat) (hm : P.isModel m = true) (hin : P.inSim m = true) :
    m ∈ s.inits ∧ s.inits.Nodup := by
  have i := reach_iinv P h
  have hmem : m ∈ s.inits := by
    apply (i.started m hm).mpr
    intro hph
    have := hq (.init m)
    simp [step, hf, hph, hm, hin] at this
  exact ⟨hmem, i.once⟩

/-- non-vacuity: in the example run both models are initialised and model 1 has processed the message sent by
model 0's init -/
example : ∃ s, Reach exProg s ∧ s.inits = [0, 1] ∧ s.handled = [(1, 0)] := by
  cases hfin : runLabels exProg exLabels St.init with
  | none => exact absurd hfin (by decide)
  | some s1 =>
    have hc : (runLabels exProg exLabels St.init).map (fun s => (s.inits, s.handled)) = some ([0, 1], [(1, 0)]) := by decide
    rw [hfin] at hc
    simp only [Option.map_some, Option.some.injEq, Prod.mk.injEq] at hc
    exact ⟨s1, reach_runLabels exProg _ Reach.init hfin, hc.1, hc.2⟩

end NexoVerif.Net
