/-
C13 — Task lifecycle is safe under every interleaving of its handles.

Theorems about M-TASK (Model/Task.lean): every state reachable from `spawn` / `spawn_and_forget` by *any*
interleaving of the atomic steps of the `Runnable`, arbitrarily many `Waker`s (clone / wake by value / wake by
reference / drop, from any thread), the `CancelToken`, the `Promise` and the finaliser — no bound on the length
of the interleaving or on the number of wakers.  Atomics are sequentially consistent in this model.
-/
import NexoVerif.Lemmas.TaskRunLemmas
import NexoVerif.Extracted

namespace NexoVerif.TaskM
set_option linter.unusedSimpArgs false
set_option linter.unusedVariables false

/-- **task_never_misbehaves** — in every reachable state no protocol assumption of the code has been violated (no
poll of a missing future, no second `Runnable`, no drop of an absent future/output, no access after the
memory was freed); the future is dropped at most once, the output released at most once, the memory freed
at most once. -/
theorem task_never_misbehaves {s : S} (h : Reach s) :
    s.bad = false ∧ s.futDrops ≤ 1 ∧ s.outDrops ≤ 1 ∧ s.frees ≤ 1 := task_safe h

/-- **everything_released_exactly_once** — when every handle is gone and nobody is in the middle of an operation, the
memory has been freed exactly once, the future dropped exactly once and the output, if one was produced,
released exactly once: no leak, no double free. -/
theorem everything_released_exactly_once {s : S} (h : Reach s)
    (hn : s.wakers = 0 ∧ s.promise = .none ∧ s.token = .none ∧ s.run = .none ∧ s.fin = .none) :
    s.live = false ∧ s.frees = 1 ∧ s.futDrops = 1 ∧ s.outDrops = s.outMade := released_once h hn

/-- **single_poller** — there is at most one `Runnable` (it is a single program counter whose presence coincides
exactly with what the state word says: `runnable_exists(state)`), only the `Runnable` polls, and it polls only
while the task still holds the future: the future is polled by at most one thread at a time and never after
completion or cancellation. -/
theorem single_poller {s : S} (h : Reach s) (hl : s.live = true) :
    (s.run = .none ↔ s.rex = false) ∧ (s.run = .polling → s.core = .fut) := by
  have i := reach_inv h
  refine ⟨i.rexIff hl, ?_⟩
  intro hr
  have hc := i.coreOk hl
  have hf : s.fin = .none := by
    cases hfin : s.fin with
    | none => rfl
    | dropFutThenFree => have := (i.finExcl (by simp [hfin])).2.1; simp [hr] at this
    | dropOutThenFree => have := (i.finExcl (by simp [hfin])).2.1; simp [hr] at this
    | free => have := (i.finExcl (by simp [hfin])).2.1; simp [hr] at this
  have hp : s.polling = true := by
    have := (i.rexIff hl)
    cases hpol : s.polling with
    | true => rfl
    | false => simp [S.rex, hpol, hr] at this
  rw [hc]; simp [expectedCore, hf, hp, hr]

/-- **wake_while_pending_leads_to_poll** — after a wake-up issued while the task is in its polling phase and not
cancelled, a `Runnable` exists (queued, or the one currently running)… -/
theorem wake_while_pending_leads_to_poll {s s' : S} (h : Reach s) (hs : step .wWakeRef s = some s')
    (hp : s.polling = true) (hc : s.closed = false) : s'.run ≠ .none := by
  have hr' : Reach s' := Reach.step .wWakeRef h hs
  have i' := reach_inv hr'
  unfold step at hs
  split at hs
  · simp at hs
  · rename_i hl
    simp only [stepWWakeRef] at hs
    split at hs
    · simp only [Option.some.injEq] at hs
      have hl' : s'.live = true := by subst hs; unfold S.wakeCore; split <;> (try split) <;> simpa using hl
      have hrex : s'.rex = true := by
        subst hs; unfold S.wakeCore S.rex
        split <;> (try split) <;> simp [hp, hc]
      intro hnone
      have := (i'.rexIff hl').mp hnone
      rw [hrex] at this; simp at this
    · simp at hs

/-- **…and_running_runnable_repolls** — …and if that `Runnable` is the one that was polling when the wake-up arrived, its
post-poll update sees the extra wake-up and polls again instead of going idle. -/
theorem running_runnable_repolls (s s' : S) (hs : stepRPend s = some s') (hr : s.run = .pend)
    (hw : s.wc < s.wake) (hc : s.closed = false) : s'.run = .loaded := by
  unfold stepRPend at hs
  simp only [hr, beq_self_eq_true, ite_true] at hs
  have h1 : ¬ s.wake < s.wc := by omega
  have h2 : ¬ (s.wake - s.wc == 0) = true := by simp; omega
  simp [h1, h2, hc] at hs
  subst hs; rfl

/-- **handle_operations_are_executions** — the handle-level operations run by the correspondence check (`run`, drop of
a `Runnable`, `cancel`, `Promise::poll`, waker operations, drops) are compositions of atomic steps: from a
reachable state they lead to a reachable state (or to a state flagged `bad`, which the driver reports), so the
theorems above cover every state the check compares with the real code. -/
theorem handle_operations_are_executions (hk : Hooks) (script : Script) (k : Nat) {s : S} (h : Reach s) :
    R (opRun hk script k s).1 ∧ R (opCancel hk s) ∧ R (opPromisePoll hk s).1 ∧ R (opDropRunnable hk s) ∧
    R (opDropToken hk s) ∧ R (opDropPromise hk s) ∧ R (opWakeRef s) ∧ R (opWakeVal hk s) ∧ R (opClone s) ∧
    R (opDropWaker hk s) := by
  have hr : R s := Or.inr h
  obtain ⟨a, b, c, d, e, f, g⟩ := R_simple hk s hr
  exact ⟨R_opRun hk script k s hr, R_opCancel hk s hr, R_opPromisePoll hk s hr, a, b, c, d, e, f, g⟩

/-- **layout_constants** — the bit layout extracted from `task.rs`: POLLING = bit 0, CLOSED = bit 1, the reference
count starts at bit 2, the wake count at bit 33; the initial state words of `spawn` / `spawn_and_forget` are
the packed images of the model's initial states (wake 1, ref 2 / 1, polling, not closed). -/
theorem layout_constants :
    Extracted.taskPOLLING = 1 ∧ Extracted.taskCLOSED = 2 ∧ Extracted.taskREF_INC = 4 ∧
    Extracted.taskWAKE_INC = 8589934592 ∧
    Extracted.taskSpawnWord = spawn.wake * 8589934592 + spawn.ref * 4 + 1 ∧
    Extracted.taskSpawnAndForgetWord = spawnAndForget.wake * 8589934592 + spawnAndForget.ref * 4 + 1 ∧
    Extracted.taskRunnableExistsSrc = "state & taskPOLLING != 0 && state & (taskWAKE_MASK | taskCLOSED) != 0" := by
  refine ⟨by decide, by decide, by decide, by decide, by decide, by decide, by decide⟩

/-- **task_operations_are_single_read_modify_writes** — the atomic operations of every handle operation, in textual
order, read from the source on every run: each operation decides *and* acts with one read-modify-write on the state
word (`wake`: one `fetch_add`; `clone_waker`: one `fetch_add`; `drop_waker`, token drop, promise drop: one `fetch_sub`;
token cancel, promise poll, `Runnable::run` / cancel: compare-and-swap loops and the `fetch_and` / `fetch_sub` after a
poll) — this is the step structure of M-TASK.  A load in front of a read-modify-write whose result is then ignored (the
decision taken on a stale value) changes these lists. -/
theorem task_operations_are_single_read_modify_writes :
    Extracted.taskOpsTaskCloneWaker = [.rmw "state" "fetch_add" .relaxed] ∧
    Extracted.taskOpsTaskWake = [.rmw "state" "fetch_add" .release] ∧
    Extracted.taskOpsTaskWakeByVal = [.fence .acquire] ∧
    Extracted.taskOpsTaskDropWaker = [.rmw "state" "fetch_sub" .release, .fence .acquire] ∧
    Extracted.taskOpsRunnableRun = [.load "state" .acquire, .fence .acquire, .cas "state" .release .relaxed,
      .rmw "state" "fetch_and" .release, .fence .acquire, .rmw "state" "fetch_sub" .acqrel] ∧
    Extracted.taskOpsRunnableCancel = [.fence .acquire, .cas "state" .release .relaxed, .fence .acquire] ∧
    Extracted.taskOpsTokenCancel = [.cas "state" .acqrel .relaxed, .fence .acquire, .rmw "state" "fetch_sub" .release,
      .fence .acquire] ∧
    Extracted.taskOpsTokenDrop = [.rmw "state" "fetch_sub" .release, .fence .acquire] ∧
    Extracted.taskOpsPromisePoll = [.cas "state" .acquire .relaxed] ∧
    Extracted.taskOpsPromiseDrop = [.rmw "state" "fetch_sub" .release, .fence .acquire] := by
  refine ⟨by decide, by decide, by decide, by decide, by decide, by decide, by decide, by decide, by decide, by decide⟩

/-! ## non-vacuity -/
example : Reach spawn ∧ (opRun {} [([.cloneCx], false)] 0 spawn).1.wakers = 1 := ⟨Reach.spawn, by decide⟩

end NexoVerif.TaskM
