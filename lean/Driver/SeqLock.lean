import NexoVerif.Model.SeqLockRun
/-! Line protocol for the `synccell` engine (M-SEQLOCK). -/
namespace Driver.SeqLock
open NexoVerif.SeqLock

structure DSt where
  st : Option St := none

def showLabel : Label → String
  | .wBegin a b => s!"wBegin({a},{b})" | .wStep => "wStep" | .rLoadSeq1 i => s!"rSeq1[{i}]"
  | .rLoadD1 j => s!"rSecs[{j}]" | .rLoadD2 j => s!"rNanos[{j}]" | .rFence => "rFence"
  | .rLoadSeq2 i => s!"rSeq2[{i}]" | .rRestart => "rRestart"

def step (d : DSt) (ws : List String) : DSt × String :=
  let o := extractedOrds
  match ws, d.st with
  | ["case", "cell", a, b], _ =>
    match a.toNat?, b.toNat? with
    | some a, some b => ({ st := some (init a b) }, "ok")
    | _, _ => (d, "bad-op")
  | ["write", a, b], some s =>
    match a.toNat?, b.toNat? with
    | some a, some b =>
      match doWrite o a b s with
      | some s' => ({ st := some s' }, "-")
      | none => (d, "model-stuck")
    | _, _ => (d, "bad-op")
  | ["read"], some s =>
    match doReadSC o s with
    | some s' =>
      (match s'.result with
       | some (some (x, y)) => ({ st := some s' }, s!"ok {x} {y}")
       | _ => ({ st := some s' }, "retry"))
    | none => (d, "model-stuck")
  | ["shape"], _ =>
    (d, match extractedOrds? with | some _ => "shape-ok" | none => "shape-unknown")
  | ["search", w, depth], _ =>
    match w.toNat?, depth.toNat? with
    | some w, some depth =>
      (match (if NexoVerif.Extracted.tryReadTestsTranslated then
                searchTornT NexoVerif.Extracted.tryReadEarlyReject NexoVerif.Extracted.tryReadAccept searchOrds w depth (init 0 0) []
              else searchTorn extractedGuards searchOrds w depth (init 0 0) []) with
       | none => (d, "none")
       | some tr => (d, "torn " ++ " ".intercalate (tr.map showLabel)))
    | _, _ => (d, "bad-op")
  | ["wrap", kmax], _ =>
    -- a read overlapped by K complete writes: the sequence counter has advanced by 2K modulo its width; with a counter of
    -- the width found in the source, is there a K ≤ kmax after which the final test of `try_read` accepts?
    match kmax.toNat? with
    | some kmax =>
      let bits := NexoVerif.Extracted.syncCellSeqBits
      let hit := (List.range kmax).find? fun k =>
        bits != 0 && NexoVerif.Extracted.tryReadAccept 0 ((2 * (k + 1)) % 2 ^ bits) && !NexoVerif.Extracted.tryReadEarlyReject 0
      (d, match hit with
          | some k => s!"torn: a read that loaded seconds before and nanoseconds after {k + 1} complete writes is accepted (the {bits}-bit sequence counter is back to its value)"
          | none => "none")
    | none => (d, "bad-op")
  | ["stress", _, _], _ => (d, "ok")
  | _, _ => (d, "bad-op")

end Driver.SeqLock
