import Driver.Sinks
import Driver.PQ
import Driver.Sched
import Driver.SeqLock
import Driver.Task
import Driver.Queue
import Driver.Net
import Driver.Bcast
import Driver.Inj
import Driver.TSet
import Driver.Slot
/-!
`nexo_driver <engine>` — folds the executable Lean model of an engine over request lines read from
stdin and prints one response line per request.  A line starting with `case` resets the state.
-/

def splitWords (line : String) : List String :=
  (line.trimAscii.toString.splitOn " ").filter (· ≠ "")

partial def loop {σ : Type} (h : IO.FS.Stream) (out : IO.FS.Stream) (step : σ → List String → σ × String) (s : σ) : IO Unit := do
  let line ← h.getLine
  if line.isEmpty then return ()
  let (s', r) := step s (splitWords line)
  out.putStrLn r
  loop h out step s'

def main (args : List String) : IO UInt32 := do
  let stdin ← IO.getStdin
  let stdout ← IO.getStdout
  match args with
  | ["sinks"] => loop stdin stdout Driver.Sinks.step Driver.Sinks.St.none; return 0
  | ["sched"] => loop stdin stdout Driver.Sched.stepTop ({ d := {} } : Driver.Sched.Ctx); return 0
  | ["synccell"] => loop stdin stdout Driver.SeqLock.step ({} : Driver.SeqLock.DSt); return 0
  | ["task"] => loop stdin stdout Driver.Task.step ({} : Driver.Task.DSt); return 0
  | ["queue"] => loop stdin stdout Driver.Queue.step ({} : Driver.Queue.DSt); return 0
  | ["net"] => loop stdin stdout Driver.Net.step ({} : Driver.Net.DSt); return 0
  | ["bcast"] => loop stdin stdout Driver.Bcast.step ({} : Driver.Bcast.DSt); return 0
  | ["tset"] => loop stdin stdout Driver.TSet.step ({} : Driver.TSet.DSt); return 0
  | ["inj"] => loop stdin stdout Driver.Inj.step ({} : Driver.Inj.DSt); return 0
  | ["slot"] => loop stdin stdout Driver.Slot.stepD ({} : Driver.Slot.DSt); return 0
  | ["pq"] => loop stdin stdout Driver.PQ.step Driver.PQ.St.none; return 0
  | _ => IO.eprintln "usage: nexo_driver <engine>"; return 2
