import NexoVerif.Model.Bcast
/-! Line protocol of engine `bcast` (query broadcaster + cached read-write lock). -/
namespace Driver.Bcast
open NexoVerif.Bcast

structure DSt where
  s : St := {}
  l : Lock := {}
  lock : Bool := false

def joinNat (l : List Nat) : String := ",".intercalate (l.map toString)

def obs (s : St) : String :=
  s!"P {joinNat (s.slots.map (·.polls))} | W {s.outerWakes} | Q {";".intercalate (s.slots.map fun sl => joinNat sl.requests)}"

def showRes : PollRes → String
  | .noFuture => "no-future"
  | .pending => "pending"
  | .err => "err"
  | .ready vals => if vals.any (·.isNone) then "panic" else "ready " ++ joinNat (vals.map (·.getD 0))

def step (d : DSt) (ws : List String) : DSt × String :=
  match ws with
  | ["case", "bcast"] => ({ s := {}, lock := false }, "ok")
  | ["lockstress", _, _, _] =>
    -- every `write` is one step of the lock model whatever the interleaving (`clones_share_one_connection_list`): after
    -- all writers have finished every clone reads every value
    (d, "lockstress ok")
  | ["case", "lock"] => ({ l := {}, lock := true }, "ok")
  | ["case", "lock", "ports"] => ({ l := {}, lock := true }, "ok")
  | _ =>
  if d.lock then
    match ws with
    | ["clone", c] => match c.toNat? with
      | some c => ({ d with l := (lstep d.l (.clone c)).1 }, "ok")
      | none => (d, "bad-op")
    | ["wpush", c, v] => match c.toNat?, v.toNat? with
      | some c, some v => ({ d with l := (lstep d.l (.writePush c v)).1 }, "ok")
      | _, _ => (d, "bad-op")
    | ["read", c] => match c.toNat? with
      | some c =>
        let r := lstep d.l (.read c)
        ({ d with l := r.1 }, match r.2 with | some v => "v " ++ joinNat v | none => "bad-clone")
      | none => (d, "bad-op")
    | _ => (d, "bad-op")
  else
    let run (op : Op) : DSt × String :=
      let r := NexoVerif.Bcast.step d.s op
      ({ d with s := r.1 }, (match r.2 with | some pr => showRes pr ++ " | " | none => "") ++ obs r.1)
    match ws with
    | ["add", a, fm, fr] => match a.toNat?, fm.toNat?, fr.toNat? with
      | some a, some fm, some fr => if d.s.fut.isSome then (d, "busy") else run (.add a fm fr)
      | _, _, _ => (d, "bad-op")
    | ["bc", a, c] => match a.toNat?, c.toNat? with
      | some a, some c => if d.s.fut.isSome then (d, "busy") else run (.bc a c)
      | _, _ => (d, "bad-op")
    | ["poll"] => run .poll
    | ["drop"] => run .drop
    | ["reply", c, v] => match c.toNat?, v.toNat? with
      | some c, some v => run (.reply c v)
      | _, _ => (d, "bad-op")
    | ["wake", c] => match c.toNat? with
      | some c => run (.wake c)
      | none => (d, "bad-op")
    | ["fail", c] => match c.toNat? with
      | some c => run (.failNext c)
      | none => (d, "bad-op")
    | _ => (d, "bad-op")

end Driver.Bcast
