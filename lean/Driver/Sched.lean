import NexoVerif.Model.Sched
/-! Line protocol for the `sched` engine (M-SCHED).  See harness/src/engines/sched.rs for the grammar. -/
namespace Driver.Sched
open NexoVerif.Sched

/-- one handler script line -/
inductive HLine where
  | sched (abs : Bool) (dl : Nat) (kind : String) (period : Nat) (aid : Nat) (key : Nat)
  | cancel (key : Nat)

structure DSt where
  st        : St := St.init 0 none
  nmodels   : Nat := 0
  tol       : Option Nat := none
  t0        : Nat := 0
  lags      : List (Nat × Nat) := []          -- (sync call index, lag)
  srcs      : List (Nat × List Nat) := []     -- EventSource id → connected models
  scripts   : List (Nat × HLine) := []        -- aid → lines (in order)
  exts      : List (Nat × SchedReq) := []     -- sync call index → foreign request
  started   : Bool := false

def kindPeriod (kind : String) (p : Nat) : Option Nat :=
  if kind == "per" || kind == "kper" then some p else none
def kindKey (kind : String) (k : Nat) : Option Nat :=
  if kind == "keyed" || kind == "kper" then some k else none

def DSt.prog (d : DSt) : Prog :=
  { handler := fun aid m _now =>
      (d.scripts.filter (·.1 == aid)).map fun (_, l) =>
        match l with
        | .sched abs dl kind p a k =>
          HCmd.sched { origin := m + 1, abs := abs, dl := dl, aid := a, period := kindPeriod kind p,
                       key := kindKey kind k, targets := [m], recheck := (kindKey kind k).isSome }
        | .cancel k => HCmd.cancel k
    clock := fun n => (d.lags.find? (·.1 == n)).map (·.2)
    ext := fun n => (d.exts.filter (·.1 == n)).map (·.2)
    inits := d.nmodels }

def showRes : Res → String
  | .ok => "ok" | .invalidTime => "invalid-time" | .nullPeriod => "null-period"
  | .terminated => "terminated" | .invalidDeadline => "invalid-deadline"
  | .outOfSync l => s!"out-of-sync {l}" | .diverged => "DIVERGED"

/-- insertion sort of the fires of one segment by (model, origin), stable -/
def insertFire (x : Nat × Nat × String) : List (Nat × Nat × String) → List (Nat × Nat × String)
  | [] => [x]
  | y :: r => if x.1 < y.1 || (x.1 == y.1 && x.2.1 < y.2.1) then x :: y :: r else y :: insertFire x r

def sortFires (l : List (Nat × Nat × String)) : List (Nat × Nat × String) :=
  l.foldl (fun acc x => insertFire x acc) []

/-- canonical text of the observations made since `oldLen` (log is newest first).  `origins` maps a fired
aid to the origin of its entry: driver-scheduled aids (origin 0) are told by the harness via `drv`. -/
def renderLog (_d : DSt) (newLog : List Obs) (drvAids : List Nat) : String :=
  let evs := newLog.reverse
  -- split into segments at syncs
  let rec go (evs : List Obs) (cur : List (Nat × Nat × String)) (out : List String) : List String :=
    match evs with
    | [] => out ++ (sortFires cur.reverse).map (·.2.2)
    | .sync t :: r =>
      go r [] (out ++ (sortFires cur.reverse).map (·.2.2) ++ [s!"S{t}"])
    | .fire aid m _dl seen :: r =>
      let origin := if drvAids.contains aid then 0 else m + 1
      go r ((m, origin, s!"F{aid}@{m}:{seen}") :: cur) out
    | .ext aid ok :: r =>
      go r [] (out ++ (sortFires cur.reverse).map (·.2.2) ++ [s!"X{aid}:" ++ (if ok then "ok" else "rej")])
    | _ :: r => go r cur out
  " ".intercalate (go evs [] [])

/-- a hint = one delivery observed on the implementation: (aid, model, time seen) -/
abbrev Hint := Nat × Nat × Nat

def parseHint (w : String) : Option Hint :=
  -- F<aid>@<m>:<seen>
  if w.startsWith "F" then
    match (w.drop 1).toString.splitOn "@" with
    | [a, rest] =>
      match rest.splitOn ":" with
      | [m, t] => match a.toNat?, m.toNat?, t.toNat? with
        | some a, some m, some t => some (a, m, t)
        | _, _, _ => none
      | _ => none
    | _ => none
  else none

/-- remove the first delivery matching (aid, model) -/
def takeDelivery (aid m : Nat) : List (Entry × Nat) → Option ((Entry × Nat) × List (Entry × Nat))
  | [] => none
  | d :: r =>
    if d.1.aid == aid && d.2 == m then some (d, r)
    else match takeDelivery aid m r with
      | none => none
      | some (x, r') => some (x, d :: r')

/-- The schedule observed on the implementation, turned into an oracle: the deliveries of the step at time
`t` are processed in the order of the hints with that time; deliveries without a hint keep spawn order. -/
def hintOracle (hints : List Hint) : Oracle := fun gs =>
  let ds := spawnOrder gs
  match ds with
  | [] => []
  | d0 :: _ =>
    let t := d0.1.time
    let hs := hints.filter (·.2.2 == t)
    let rec go (hs : List Hint) (rest : List (Entry × Nat)) (acc : List (Entry × Nat)) : List (Entry × Nat) :=
      match hs with
      | [] => acc.reverse ++ rest
      | (a, m, _) :: hs' =>
        match takeDelivery a m rest with
        | none => go hs' rest acc
        | some (d, rest') => go hs' rest' (d :: acc)
    go hs ds []

/-- does the order keep every chain (same time, origin, target model) in queue order? -/
def respectsChains (order : List (Entry × Nat)) : Bool :=
  let rec go : List (Entry × Nat) → Bool
    | [] => true
    | d :: r => (r.all fun d' => !(d'.1.sameKey d.1 && d'.2 == d.2 && d'.1.epoch < d.1.epoch)) && go r
  go order

structure Ctx where
  d : DSt
  drvAids : List Nat := []

def respond (c : Ctx) (old : St) (s' : St) (r : Res) : String :=
  let newLog := s'.log.take (s'.log.length - old.log.length)
  s!"{showRes r} now={s'.now} | {renderLog c.d newLog c.drvAids}"

def parseDl (w : String) : Option Bool := if w == "abs" then some true else if w == "rel" then some false else none

def queueLine (s : St) : String :=
  "q " ++ " ".intercalate (s.queue.map fun e =>
    s!"{e.time}:{e.origin}" ++ (if s.isCancelled e then "c" else ""))

def step (c : Ctx) (ws0 : List String) : Ctx × String :=
  let d := c.d
  let ws := ws0.takeWhile (· ≠ ";")
  let hints := (ws0.dropWhile (· ≠ ";")).filterMap parseHint
  let ord : Oracle := fun gs =>
    -- trace validation: the observed schedule is followed only if it is a linearization of the chains
    let o := hintOracle hints gs
    if respectsChains o then o else spawnOrder gs
  match ws with
  | ["case", "sched", n, "tol", tol, "t0", t0, "exec", _exec, "cap", _cap] =>
    match n.toNat?, t0.toNat? with
    | some n, some t0 =>
      ({ d := { nmodels := n, tol := tol.toNat?, t0 := t0 }, drvAids := [] }, "ok")
    | _, _ => (c, "bad-op")
  | ["unit", _] => (c, "ok")   -- length of the time unit on the implementation side: M-SCHED's times are in units
  | ["base", _] => (c, "ok")   -- origin of the time axis on the implementation side (before / at the epoch): M-SCHED's times are relative
  | "clock" :: rest =>
    let lags := rest.filterMap fun w =>
      match w.splitOn ":" with
      | [a, b] => match a.toNat?, b.toNat? with
        | some a, some b => some (a, b)
        | _, _ => none
      | _ => none
    ({ c with d := { d with lags := lags } }, "ok")
  | ["src", sid, ms] =>
    match sid.toNat? with
    | some sid =>
      let ms := (ms.splitOn ",").filterMap (·.toNat?)
      ({ c with d := { d with srcs := d.srcs ++ [(sid, ms)] } }, "ok")
    | none => (c, "bad-op")
  | ["h", aid, "s", dlk, dl, kind, p, a, k] =>
    match aid.toNat?, parseDl dlk, dl.toNat?, p.toNat?, a.toNat?, k.toNat? with
    | some aid, some abs, some dl, some p, some a, some k =>
      ({ c with d := { d with scripts := d.scripts ++ [(aid, .sched abs dl kind p a k)] } }, "ok")
    | _, _, _, _, _, _ => (c, "bad-op")
  | ["h", aid, "c", k] =>
    match aid.toNat?, k.toNat? with
    | some aid, some k => ({ c with d := { d with scripts := d.scripts ++ [(aid, .cancel k)] } }, "ok")
    | _, _ => (c, "bad-op")
  | ["ext", n, "m", m, dlk, dl, kind, p, a, k] =>
    match n.toNat?, m.toNat?, parseDl dlk, dl.toNat?, p.toNat?, a.toNat?, k.toNat? with
    | some n, some m, some abs, some dl, some p, some a, some k =>
      let r : SchedReq := { origin := 0, abs := abs, dl := dl, aid := a, period := kindPeriod kind p,
                            key := kindKey kind k, targets := [m], recheck := (kindKey kind k).isSome }
      ({ d := { d with exts := d.exts ++ [(n, r)] }, drvAids := a :: c.drvAids }, "ok")
    | _, _, _, _, _, _, _ => (c, "bad-op")
  | ["init"] =>
    let s := initSim d.prog d.t0 d.tol
    let c' := { c with d := { d with st := s, started := true } }
    (c', respond c' (St.init d.t0 d.tol) s .ok)
  | ["sch", "m", m, dlk, dl, kind, p, a, k] =>
    match m.toNat?, parseDl dlk, dl.toNat?, p.toNat?, a.toNat?, k.toNat? with
    | some m, some abs, some dl, some p, some a, some k =>
      let r : SchedReq := { origin := 0, abs := abs, dl := dl, aid := a, period := kindPeriod kind p,
                            key := kindKey kind k, targets := [m], recheck := (kindKey kind k).isSome }
      let (s', res) := sched d.st r
      ({ d := { d with st := s' }, drvAids := a :: c.drvAids }, showRes res)
    | _, _, _, _, _, _ => (c, "bad-op")
  | ["ssrc", sid, dlk, dl, kind, p, a, k] =>
    match sid.toNat?, parseDl dlk, dl.toNat?, p.toNat?, a.toNat?, k.toNat? with
    | some sid, some abs, some dl, some p, some a, some k =>
      match (d.srcs.find? (·.1 == sid)).map (·.2) with
      | none => (c, "bad-op")
      | some targets =>
      let r : SchedReq := { origin := 0, abs := abs, dl := dl, aid := a, period := kindPeriod kind p,
                            key := kindKey kind k, targets := targets, recheck := false }
      let (s', res) := sched d.st r
      ({ d := { d with st := s' }, drvAids := a :: c.drvAids }, showRes res)
    | _, _, _, _, _, _ => (c, "bad-op")
  | ["cancel", k] =>
    match k.toNat? with
    | some k => ({ c with d := { d with st := cancelKey d.st k } }, "-")
    | none => (c, "bad-op")
  | ["step"] =>
    let (s', r) := NexoVerif.Sched.step d.prog ord d.st
    let c' := { c with d := { d with st := s' } }
    (c', respond c' d.st s' r)
  | ["until", dlk, t] =>
    match parseDl dlk, t.toNat? with
    | some abs, some t =>
      let target := if abs then t else d.st.now + t
      let (s', r) := stepUntil d.prog ord target d.st
      let c' := { c with d := { d with st := s' } }
      (c', respond c' d.st s' r)
    | _, _ => (c, "bad-op")
  | ["proc", m, a] =>
    match m.toNat?, a.toNat? with
    | some m, some a =>
      let (s', r) := processEvent d.prog a m d.st
      let c' := { d := { d with st := s' }, drvAids := a :: c.drvAids }
      (c', respond c' d.st s' r)
    | _, _ => (c, "bad-op")
  | ["queue"] => (c, queueLine d.st)
  | _ => (c, "bad-op")

/-- top level: `race m … then <stepping call>` is the request followed by the stepping call (the request holds the
queue lock first: the stepping call waits for it) -/
def stepTop (c : Ctx) (ws0 : List String) : Ctx × String :=
  match ws0 with
  | "race" :: rest =>
    let req := rest.takeWhile (· ≠ "then")
    let call := (rest.dropWhile (· ≠ "then")).drop 1
    let (c1, r1) := step c ("sch" :: req)
    let (c2, r2) := step c1 call
    (c2, r1 ++ " ; " ++ r2)
  | _ => step c ws0

end Driver.Sched
