import NexoVerif.Model.Sink
/-! Line protocol for the `sinks` engine (M-SINK). -/
namespace Driver.Sinks
open NexoVerif.Sink

inductive St where
  | none
  | buf (b : Buf)
  | slot (s : Slot)
  | sim (b : Buf) (mode : Nat)

def showOpt : Option Nat → String
  | .none => "none"
  | .some x => s!"some {x}"

def showList (l : List Nat) : String := ",".intercalate (l.map toString)

def parseOp : List String → Option Op
  | ["write", n] => n.toNat?.map Op.write
  | ["next"] => some Op.next
  | ["open"] => some Op.opn
  | ["close"] => some Op.cls
  | _ => Option.none

def step (st : St) (ws : List String) : St × String :=
  match ws with
  | ["case", "buf", cap, o] =>
    match cap.toNat?, o.toNat? with
    | some c, some o => (.buf (Buf.new c (o != 0)), "ok")
    | _, _ => (st, "bad-op")
  | ["stress", cap, writers, n] =>
    -- every write is one step of M-SINK whatever the interleaving of the writers: after `writers * n` writes the buffer
    -- holds min(cap, writers * n) events (`buf_len_le_cap`, `overflow_keeps_last_cap`)
    match cap.toNat?, writers.toNat?, n.toNat? with
    | some c, some w, some n => (st, s!"stress len={min c (w * n)}")
    | _, _, _ => (st, "bad-op")
  | ["zst", cap, n, reads] =>
    -- zero-sized events: M-SINK with every value 0 — n/2 writes, `reads` reads, the remaining writes, then what is left
    match cap.toNat?, n.toNat?, reads.toNat? with
    | some c, some n, some reads =>
      let b0 := (Buf.new c true).run ((List.replicate (n / 2) (Op.write 0)))
      let got := min reads b0.items.length
      let b1 := (b0.run (List.replicate reads Op.next)).run (List.replicate (n - n / 2) (Op.write 0))
      (st, s!"zst got={got} left={b1.items.length}")
    | _, _, _ => (st, "bad-op")
  | ["case", "slot", o] =>
    match o.toNat? with
    | some o => (.slot (Slot.new (o != 0)), "ok")
    | _ => (st, "bad-op")
  | ["case", "simbuf", cap, o, m] =>
    match cap.toNat?, o.toNat?, m.toNat? with
    | some c, some o, some m => (.sim (Buf.new c (o != 0)) m, "ok")
    | _, _, _ => (st, "bad-op")
  | ["burst", a, n] =>
    match a.toNat?, n.toNat?, st with
    | some a, some n, .sim b m =>
      -- the model sends a, a+1, …, a+n-1 through its output; the connection maps / filters each value
      let vals := (List.range n).map (· + a)
      let sent := match m with
        | 0 => vals
        | 1 => vals.map (· + 1000)
        | _ => vals.filter (· % 2 == 0)
      (.sim (b.run (sent.map Op.write)) m, "-")
    | _, _, _ => (st, "bad-op")
  | ["drain"] =>
    match st with
    | .sim b m => (.sim { b with items := [] } m, s!"drained {showList b.items}")
    | .buf b => (.buf { b with items := [] }, s!"drained {showList b.items}")
    | .slot s => (.slot { s with v := Option.none }, s!"drained {showList s.v.toList}")
    | .none => (st, "bad-op")
  | _ =>
    match parseOp ws, st with
    | some op, .buf b =>
      let (b', r) := b.step op
      (.buf b', match op with | .next => showOpt r | _ => "-")
    | some op, .sim b m =>
      match op with
      | .write _ => (st, "bad-op")
      | _ =>
        let (b', r) := b.step op
        (.sim b' m, match op with | .next => showOpt r | _ => "-")
    | some op, .slot s =>
      let (s', r) := s.step op
      (.slot s', match op with | .next => showOpt r | _ => "-")
    | _, _ => (st, "bad-op")

end Driver.Sinks
