import NexoVerif.Model.PQ
/-! Line protocol for the `pq` engine (M-PQ). -/
namespace Driver.PQ
open NexoVerif.PQ

inductive St where
  | none
  | pq (q : PQ)
  | ipq (q : IPQ)

def showKV : Option (Nat × Nat) → String
  | .none => "none"
  | .some (k, v) => s!"some {k} {v}"

def step (st : St) (ws : List String) : St × String :=
  match ws, st with
  | ["case", "pq"], _ => (.pq PQ.new, "ok")
  | ["case", "ipq"], _ => (.ipq IPQ.new, "ok")
  | ["ins", k, v], .pq q =>
    match k.toNat?, v.toNat? with
    | some k, some v => (.pq (q.insert k v), "-")
    | _, _ => (st, "bad-op")
  | ["pull"], .pq q => let (q', r) := q.pull; (.pq q', showKV r)
  | ["peek"], .pq q => (st, showKV q.peek)
  | ["ins", k, v], .ipq q =>
    match k.toNat?, v.toNat? with
    | some k, some v =>
      let (q', (i, e)) := q.insert k v
      if q'.err then (.ipq q', "panic") else (.ipq q', s!"key {i} {e}")
    | _, _ => (st, "bad-op")
  | ["pull"], .ipq q => let (q', r) := q.pull; (.ipq q', showKV r)
  | ["peek"], .ipq q => (st, showKV q.peek)
  | ["peekkey"], .ipq q => (st, match q.peekKey with | .none => "none" | .some k => s!"some {k}")
  | ["len"], .ipq q => (st, s!"len {q.len}")
  | ["ext", i, e], .ipq q =>
    match i.toNat?, e.toNat? with
    | some i, some e => let (q', r) := q.extract i e; (.ipq q', showKV r)
    | _, _ => (st, "bad-op")
  | _, _ => (st, "bad-op")

end Driver.PQ
