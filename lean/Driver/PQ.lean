import NexoVerif.Model.PQ
import NexoVerif.Model.Heap
/-! Line protocol for the `pq` engine (M-PQ). -/
namespace Driver.PQ
open NexoVerif.PQ

inductive St where
  | none
  | pq (q : PQ)
  | ipq (q : IPQ) (h : NexoVerif.Heap.HQ)

def showKV : Option (Nat × Nat) → String
  | .none => "none"
  | .some (k, v) => s!"some {k} {v}"

def step (st : St) (ws : List String) : St × String :=
  match ws, st with
  | ["case", "pq"], _ => (.pq PQ.new, "ok")
  | ["case", "ipq"], _ => (.ipq IPQ.new NexoVerif.Heap.HQ.new, "ok")
  | ["ins", k, v], .pq q =>
    match k.toNat?, v.toNat? with
    | some k, some v => (.pq (q.insert k v), "-")
    | _, _ => (st, "bad-op")
  | ["setepoch", e], .pq q =>
    match e.toNat? with
    | some e => (.pq { q with nextEpoch := max q.nextEpoch e }, "-")
    | none => (st, "bad-op")
  | ["setepoch", e], .ipq q h =>
    match e.toNat? with
    | some e => (.ipq { q with nextEpoch := max q.nextEpoch e } { h with nextEpoch := max h.nextEpoch e }, "-")
    | none => (st, "bad-op")
  | ["pull"], .pq q => let (q', r) := q.pull; (.pq q', showKV r)
  | ["peek"], .pq q => (st, showKV q.peek)
  -- the keyed queue: the mid-level model answers, the transliterated heap (M-HEAP) runs next to it and must agree
  | ["ins", k, v], .ipq q h =>
    match k.toNat?, v.toNat? with
    | some k, some v =>
      let (q', (i, e)) := q.insert k v
      let (h', kh) := h.insert k v
      let tag := if kh == (i, e) && h'.err == q'.err then "" else " HEAP-MISMATCH"
      if q'.err then (.ipq q' h', "panic" ++ tag) else (.ipq q' h', s!"key {i} {e}" ++ tag)
    | _, _ => (st, "bad-op")
  | ["pull"], .ipq q h =>
    let (q', r) := q.pull
    let (h', rh) := h.pull
    (.ipq q' h', showKV r ++ (if rh == r && h'.err == q'.err then "" else " HEAP-MISMATCH"))
  | ["peek"], .ipq q h => (st, showKV q.peek ++ (if h.peek == q.peek then "" else " HEAP-MISMATCH"))
  | ["peekkey"], .ipq q h =>
    (st, (match q.peekKey with | .none => "none" | .some k => s!"some {k}") ++
      (if h.peekKey == q.peekKey then "" else " HEAP-MISMATCH"))
  | ["len"], .ipq q h => (st, s!"len {q.len}" ++ (if h.len == q.len then "" else " HEAP-MISMATCH"))
  | ["ext", i, e], .ipq q h =>
    match i.toNat?, e.toNat? with
    | some i, some e =>
      let (q', r) := q.extract i e
      let (h', rh) := h.extract i e
      (.ipq q' h', showKV r ++ (if rh == r && h'.err == q'.err then "" else " HEAP-MISMATCH"))
    | _, _ => (st, "bad-op")
  | ["raw"], .ipq _ h => (st, h.raw)
  | _, _ => (st, "bad-op")

end Driver.PQ
