import NexoVerif.Model.TSet
/-! Line protocol for the `tset` engine: M-TSET run sequentially — waker thread 0 executes a whole `wake_by_ref`, the
owner a whole `take_scheduled` followed by a complete walk of the iterator. -/
namespace Driver.TSet
open NexoVerif.TSet

structure DSt where
  s : Option St := none

def run (s : St) (l : Label) : St := (step l s).getD s

/-- one whole `wake_by_ref(i)` by waker thread 0 (`fuel` bounds the retry loops, which never retry sequentially) -/
def wakeAll (s : St) (i : Nat) : St :=
  let s := run s (.wBegin 0 i)
  let s := run s (.wLoadNext 0)
  let rec go : Nat → St → St
    | 0, s => s
    | fuel + 1, s =>
      match s.wpc 0 with
      | .idle => s
      | .loadNext => go fuel (run s (.wLoadNext 0))
      | .look _ => go fuel (run s (.wLook 0))
      | .claim _ => go fuel (run s (.wClaim 0))
      | .push _ => go fuel (run s (.wPush 0))
      | .fixNext _ => go fuel (run s (.wFixNext 0))
      | .notify => go fuel (run s (.wNotify 0))
  go 16 s

/-- the iterator walked to its end -/
def drain : Nat → St → St
  | 0, s => s
  | fuel + 1, s => match s.cur with
    | none => s
    | some _ => drain fuel (run s .iterNext)

def step (d : DSt) (ws : List String) : DSt × String :=
  match ws, d.s with
  | ["case", "tset", n], _ =>
    match n.toNat? with
    | some n => ({ s := some (St.init n 1) }, "ok")
    | none => (d, "bad-op")
  | ["wake", i], some s =>
    match i.toNat? with
    | some i => let s' := wakeAll s i; ({ s := some s' }, s!"- n={s'.notified}")
    | none => (d, "bad-op")
  | ["take", c], some s =>
    match c.toNat? with
    | some c =>
      let y0 := s.yielded.length
      let s1 := run s (.take c)
      let found := s1.cur.isSome
      let s2 := drain (s.n + 1) s1
      let ys := s2.yielded.drop y0
      ({ s := some s2 },
        if found then s!"some {",".intercalate (ys.map toString)} n={s2.notified}" else s!"none n={s2.notified}")
    | none => (d, "bad-op")
  | ["discard"], some s =>
    -- `discard_scheduled`: nothing to do when the head is EMPTY with no countdown; otherwise `take_scheduled(0)` and the
    -- iterator's drop
    let s1 := if s.head.ix.isNone && s.head.cd == 0 then s else run s (.take 0)
    let rec dropAll : Nat → St → St
      | 0, s => s
      | fuel + 1, s => match s.cur with
        | none => s
        | some _ => dropAll fuel (run s .dropNext)
    let s2 := dropAll (s.n + 1) s1
    ({ s := some s2 }, s!"- has={s2.head.ix.isSome}")
  | ["has"], some s => (d, s!"{s.head.ix.isSome}")
  | _, _ => (d, "bad-op")

end Driver.TSet
