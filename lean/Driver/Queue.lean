import NexoVerif.Model.Queue
/-! Line protocol for the `queue` engine (M-QUEUE). -/
namespace Driver.Queue
open NexoVerif.Queue

structure DSt where
  q : Q := Q.new 1
  s : Spec := Spec.new 1

def raw (q : Q) : String :=
  s!"e={q.enq} d={q.deq} st=" ++ ",".intercalate (q.stamps.map toString)

def step (d : DSt) (ws : List String) : DSt × String :=
  match ws with
  | ["case", "queue", c] =>
    match c.toNat? with
    | some c => ({ q := Q.new c, s := Spec.new c }, "ok")
    | none => (d, "bad-op")
  | ["push", v] =>
    match v.toNat? with
    | some v =>
      let (q', r) := d.q.push v
      let (s', rs) := d.s.push v
      let txt := match r with | .ok => "ok" | .full => "full" | .closed => "closed" | .spin => "SPIN"
      ({ q := q', s := s' }, txt ++ (if r == rs then "" else " SPEC-MISMATCH") ++ " " ++ raw q')
    | none => (d, "bad-op")
  | ["pop"] =>
    let (q', r) := d.q.pop
    let (s', rs) := d.s.pop
    let txt := match r with | .some v => s!"some {v}" | .empty => "empty" | .closed => "closed" | .busy => "busy"
    ({ q := q', s := s' }, txt ++ (if r == rs then "" else " SPEC-MISMATCH") ++ " " ++ raw q')
  | ["release"] =>
    let q' := d.q.release
    ({ q := q', s := d.s.release }, (if d.q.borrowed.isSome then "released " else "nothing ") ++ raw q')
  | ["close"] => let q' := d.q.close; ({ q := q', s := d.s.close }, "- " ++ raw q')
  | ["closed?"] => (d, if d.q.isClosed then "yes" else "no")
  | ["len"] => (d, s!"len {d.q.len}")
  | ["stress", _, _, _] => (d, "ok")
  | _ => (d, "bad-op")

end Driver.Queue
