import NexoVerif.Model.Queue
import NexoVerif.Model.QueueC
/-! Line protocol for the `queue` engine (M-QUEUE). -/
namespace Driver.Queue
open NexoVerif.Queue

structure DSt where
  q : Q := Q.new 1
  s : Spec := Spec.new 1
  c : NexoVerif.CQ.St := { cap := 1 }

def raw (q : Q) : String :=
  s!"e={q.enq} d={q.deq} st=" ++ ",".intercalate (q.stamps.map toString)

/-- one whole `push(v)` of producer 0 in M-QUEUE-C, its atomic steps run back to back -/
def cpush (c : NexoVerif.CQ.St) (v : Nat) : NexoVerif.CQ.St × String :=
  let run (c : NexoVerif.CQ.St) (l : NexoVerif.CQ.Label) := (NexoVerif.CQ.step l c).getD c
  let c := run c (.pBegin 0 v)
  let c := run c (.pLoadStamp 0)
  let c := run c (.pDecide 0)
  let c := run c (.pWrite 0)
  let c := run c (.pPublish 0)
  (c, match c.results.getLast? with
      | some (_, _, .ok) => "ok" | some (_, _, .full) => "full" | some (_, _, .closed) => "closed" | none => "?")

def cpop (c : NexoVerif.CQ.St) : NexoVerif.CQ.St × String :=
  match c.cons with
  | .borrowed _ => (c, "busy")
  | .idle =>
    let c' := (NexoVerif.CQ.step .cPop c).getD c
    if c'.d ≠ c.d then (c', s!"some {c'.popped.getLast?.getD 0}")
    else if c'.popClosed && !(c.popClosed) || (c.closed && c.e == c.d) then (c', "closed")
    else (c', "empty")

def step (d : DSt) (ws : List String) : DSt × String :=
  match ws with
  | ["case", "queue", c] =>
    match c.toNat? with
    | some c => ({ q := Q.new c, s := Spec.new c, c := { cap := c } }, "ok")
    | none => (d, "bad-op")
  | ["push", v] =>
    match v.toNat? with
    | some v =>
      let (q', r) := d.q.push v
      let (s', rs) := d.s.push v
      let txt := match r with | .ok => "ok" | .full => "full" | .closed => "closed" | .spin => "SPIN"
      let (c', rc) := cpush d.c v
      ({ q := q', s := s', c := c' }, txt ++ (if r == rs then "" else " SPEC-MISMATCH") ++ (if rc == txt then "" else " CONC-MISMATCH") ++ " " ++ raw q')
    | none => (d, "bad-op")
  | ["pop"] =>
    let (q', r) := d.q.pop
    let (s', rs) := d.s.pop
    let txt := match r with | .some v => s!"some {v}" | .empty => "empty" | .closed => "closed" | .busy => "busy"
    let (c', rc) := cpop d.c
    ({ q := q', s := s', c := c' }, txt ++ (if r == rs then "" else " SPEC-MISMATCH") ++ (if rc == txt then "" else " CONC-MISMATCH") ++ " " ++ raw q')
  | ["release"] =>
    let q' := d.q.release
    ({ q := q', s := d.s.release, c := (NexoVerif.CQ.step .cRelease d.c).getD d.c }, (if d.q.borrowed.isSome then "released " else "nothing ") ++ raw q')
  | ["close"] => let q' := d.q.close; ({ q := q', s := d.s.close, c := (NexoVerif.CQ.step .close d.c).getD d.c }, "- " ++ raw q')
  | ["closed?"] => (d, if d.q.isClosed then "yes" else "no")
  | ["len"] => (d, s!"len {d.q.len}")
  | ["stress", _, _, _] => (d, "ok")
  | _ => (d, "bad-op")

end Driver.Queue
