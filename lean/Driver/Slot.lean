import NexoVerif.Model.ReplySlot
/-! Line protocol for the `slot` engine (M-SLOT): every handle operation is run to its end. -/
namespace Driver.Slot
open NexoVerif.Slot

structure DSt where
  s : Option St := none
  val : Nat := 0

def run (s : St) (ls : List Label) : St := ls.foldl (fun s l => (step l s).getD s) s

/-- the value written has been dropped in place, or read (the harness drops a value it has read at once) -/
def drops (s : St) : Nat := if s.cell == .dropped || s.cell == .taken then 1 else 0

def tag (s : St) : String := if s.bad then " BAD" else ""

def stepD (d : DSt) (ws : List String) : DSt × String :=
  match ws, d.s with
  | ["case", "slot"], _ => ({ s := some {}, val := 0 }, "ok")
  | ["race", _, _], _ =>
    -- every interleaving of the two sides is an execution of M-SLOT: the value is read or dropped exactly once
    -- (`a_reply_is_read_or_dropped_exactly_once`)
    (d, "race ok")
  | ["write", v], some s =>
    if s.wpc = .idle then
      let s' := run s [.wWriteValue, .wPublish, .wClean]
      ({ s := some s', val := v.toNat?.getD 0 }, (if s'.wroteOk then "ok" else "err") ++ s!" drops={drops s'}" ++ tag s')
    else (d, "gone")
  | ["wdrop"], some s =>
    if s.wpc = .idle then
      let s' := run s [.wDropLoad, .wDropOr, .wFree]
      ({ d with s := some s' }, s!"- drops={drops s'}" ++ tag s')
    else (d, "gone")
  | ["read"], some s =>
    if s.rpc = .idle then
      let s' := run s [.rTryLoad, .rTryStore, .rTryTake]
      let t := if s'.reads != s.reads then s!"some {d.val}" else if !s.closed && !s.pop then "novalue" else "closed"
      ({ d with s := some s' }, t ++ s!" drops={drops s'}" ++ tag s')
    else (d, "gone")
  | ["rdrop"], some s =>
    if s.rpc = .idle then
      let s' := run s [.rDropLoad, .rDropOr, .rFree]
      ({ d with s := some s' }, s!"- drops={drops s'}" ++ tag s')
    else (d, "gone")
  | _, _ => (d, "bad-op")

end Driver.Slot
