import NexoVerif.Model.Inj
/-! Line protocol for the `inj` engine (M-INJ, bucket capacity 3). -/
namespace Driver.Inj
open NexoVerif.Inj

structure DSt where
  s : Option St := none

def showB : Option (List Nat) → String
  | .none => "none"
  | .some b => "some " ++ ",".intercalate (b.map toString)

def step (d : DSt) (ws : List String) : DSt × String :=
  match ws, d.s with
  | ["stress", _, _], _ =>
    -- every operation is one step of M-INJ whatever the interleaving; once all threads have finished, what was put in
    -- comes out (`injector_neither_loses_nor_duplicates_a_task`, `injector_flag_is_exact`)
    (d, "stress ok")
  | ["case", "inj"], _ => ({ s := some { cap := 3 } }, "ok")
  | ["ins", t], some s =>
    match t.toNat? with
    | some t => let s' := insertTask s t; ({ s := some s' }, s!"- {s'.flag}")
    | none => (d, "bad-op")
  | ["push", ts], some s =>
    let v := (ts.splitOn ",").filterMap String.toNat?
    -- `Bucket::from_iter` keeps at most `cap` tasks
    let s' := pushBucket s (v.take s.cap)
    ({ s := some s' }, s!"- {s'.flag}")
  | ["pop"], some s =>
    let (s', r) := popBucket s
    ({ s := some s' }, s!"{showB r} {s'.flag}")
  | ["empty"], some s => (d, s!"{s.flag}")
  | _, _ => (d, "bad-op")

end Driver.Inj
