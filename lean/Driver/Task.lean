import NexoVerif.Model.TaskRun
/-! Line protocol for the `task` engine (M-TASK). -/
namespace Driver.Task
open NexoVerif.TaskM

structure DSt where
  s : S := spawn
  script : Script := []
  k : Nat := 0
  started : Bool := false
  hk : Hooks := {}

def parsePoll (w : String) : List PAct × Bool :=
  let acts := w.toList.filterMap fun c =>
    match c with
    | 'c' => some PAct.cloneCx | 'w' => some PAct.wakeCx | 's' => some PAct.wakeStored
    | 'v' => some PAct.wakeValStored | 'd' => some PAct.dropStored | 'x' => some PAct.cancelTok | _ => none
  (acts, w.toList.contains 'r')

def obs (s : S) : String :=
  let q := if s.live && s.run == .queued then 1 else 0
  s!"q={q} polls={s.polls} fd={s.futDrops} od={s.outDrops} free={s.frees}" ++ (if s.bad then " BAD" else "")

def step (d : DSt) (ws : List String) : DSt × String :=
  match ws with
  | ["case", "task", kind] =>
    ({ s := if kind == "forget" then spawnAndForget else spawn, started := true }, "ok")
  | "script" :: polls => ({ d with script := polls.map parsePoll }, "ok")
  | ["fdrop", acts] => ({ d with hk := { d.hk with fdrop := (parsePoll acts).1 } }, "ok")
  | ["odrop", acts] => ({ d with hk := { d.hk with odrop := (parsePoll acts).1 } }, "ok")
  | ["run"] =>
    if d.s.live && d.s.run == .queued then
      let (s', k') := opRun d.hk d.script d.k d.s
      ({ d with s := s', k := k' }, obs s')
    else (d, "no-runnable")
  | ["dropr"] =>
    if d.s.live && d.s.run == .queued then let s' := opDropRunnable d.hk d.s; ({ d with s := s' }, obs s')
    else (d, "no-runnable")
  | ["wake"] =>
    if d.s.live && d.s.wakers != 0 then let s' := opWakeRef d.s; ({ d with s := s' }, obs s') else (d, "no-waker")
  | ["racecancel", _] =>
    -- every interleaving of a cancel with a wake-up and a run of the Runnable is an execution of M-TASK: at most one
    -- poller, no poll after cancellation, the future dropped exactly once (`task_never_misbehaves`,
    -- `everything_released_exactly_once`)
    (d, "racecancel ok")
  | ["racewake", k, n] =>
    -- n rounds of: k wake-ups of the idle task through one waker (in any order: the first creates the Runnable, the others
    -- only count), then the Runnable is run
    match k.toNat?, n.toNat? with
    | some k, some n =>
      if d.s.live && d.s.wakers != 0 then
        let round := fun (p : S × Nat) =>
          let s1 := (List.range k).foldl (fun s _ => opWakeRef s) p.1
          opRun d.hk d.script p.2 s1
        let (s', k') := (List.range n).foldl (fun p _ => round p) (d.s, d.k)
        ({ d with s := s', k := k' }, obs s')
      else (d, "no-waker")
    | _, _ => (d, "bad-op")
  | ["wakev"] =>
    if d.s.live && d.s.wakers != 0 then let s' := opWakeVal d.hk d.s; ({ d with s := s' }, obs s') else (d, "no-waker")
  | ["clone"] =>
    if d.s.live && d.s.wakers != 0 then let s' := opClone d.s; ({ d with s := s' }, obs s') else (d, "no-waker")
  | ["dropw"] =>
    if d.s.live && d.s.wakers != 0 then let s' := opDropWaker d.hk d.s; ({ d with s := s' }, obs s') else (d, "no-waker")
  | ["cancel"] =>
    if d.s.live && d.s.token == .idle then let s' := opCancel d.hk d.s; ({ d with s := s' }, obs s') else (d, "no-token")
  | ["dropt"] =>
    if d.s.live && d.s.token == .idle then let s' := opDropToken d.hk d.s; ({ d with s := s' }, obs s') else (d, "no-token")
  | ["ppoll"] =>
    if d.s.live && d.s.promise == .idle then
      let (s', r) := opPromisePoll d.hk d.s
      ({ d with s := s' }, obs s' ++ " st=" ++ (match r with | 1 => "ready" | 2 => "cancelled" | _ => "pending"))
    else (d, "no-promise")
  | ["dropp"] =>
    if d.s.live && d.s.promise == .idle then let s' := opDropPromise d.hk d.s; ({ d with s := s' }, obs s') else (d, "no-promise")
  | _ => (d, "bad-op")

end Driver.Task
