import NexoVerif.Model.NetRun
import NexoVerif.Model.DropM
import NexoVerif.Extracted
/-! Line protocol for the `net` engine (M-NET).  See harness/src/engines/net.rs for the grammar. -/
namespace Driver.Net
open NexoVerif.Net

structure DSt where
  b : Bench := { models := [] }
  parents : List (Option Nat) := []
  s : St := St.init
  nextTask : Nat := 1000
  terminated : Bool := false
  dead : List Nat := []
  srcs : List (Nat × List Conn) := []
  simExists : Bool := false
  dropped : Bool := false
  timeoutSeen : Bool := false

def setModel (b : Bench) (i : Nat) (f : MDef → MDef) : Bench :=
  { models := (List.range b.models.length).map fun j =>
      let md := b.models.getD j default
      if j == i then f md else md }

def addPort (ports : List (List Conn)) (p : Nat) (c : Conn) : List (List Conn) :=
  let ports := if ports.length ≤ p then ports ++ List.replicate (p + 1 - ports.length) [] else ports
  (List.range ports.length).map fun j => if j == p then ports.getD j [] ++ [c] else ports.getD j []

def qname (d : DSt) : Nat → Nat → String
  | 0, i => (d.b.models.getD i default).name
  | fuel + 1, i =>
    match d.parents.getD i none with
    | none => (d.b.models.getD i default).name
    | some p => qname d fuel p ++ "." ++ (d.b.models.getD i default).name

def insertSorted (x : String) : List String → List String
  | [] => [x]
  | y :: r => if x < y then x :: y :: r else y :: insertSorted x r
def sortStrs (l : List String) : List String := l.foldl (fun acc x => insertSorted x acc) []

def showList (l : List Nat) : String := ",".intercalate (l.map toString)

def renderDelta (d : DSt) (old new : St) (res : String) : String :=
  let inits := (new.inits.drop old.inits.length).map toString
  let hs := (new.handledP.drop old.handledP.length).map fun (m, p) => s!"{m}:{p}"
  let rs := ((new.replies.drop old.replies.length).filter fun (t, _, _) => t < 1000 || res == "ok").map fun (t, p, vs) =>
    (if t ≥ 1000 then "D" else toString t) ++ s!":{p}=[{showList vs}]"
  let ks := (new.sinks.drop old.sinks.length).map fun (k, p) => s!"{k}:{p}"
  let _ := d
  s!"{res} | I {" ".intercalate (sortStrs inits)} | H {" ".intercalate (sortStrs hs)} | R {" ".intercalate (sortStrs rs)} | K {" ".intercalate (sortStrs ks)}"

def simBoxes (d : DSt) : List Nat :=
  (List.range d.b.models.length).filter fun i => (d.b.models.getD i default).inSim

def showReport (d : DSt) (s : St) : String :=
  match report d.b.prog s (simBoxes d) with
  | .panic m => s!"panic {qname d 8 m}"
  | .noRecipient (some m) => s!"no-recipient {qname d 8 m}"
  | .noRecipient none => "no-recipient -"
  | .timeout => "timeout"
  | .ok => "ok"
  | .messageLoss n => s!"message-loss {n}"
  | .deadlock l => "deadlock " ++ ",".intercalate (l.map fun (m, n) => s!"{qname d 8 m}:{n}")

def tasksOf (d : DSt) (extra : List Nat) : List Nat := extra ++ List.range d.b.models.length

/-- the ownership state (M-DROP) of the simulation's executor derived from the message-passing state (M-NET): one
task per model of the simulation, alive and registered; dropping a model's future drops its mailbox, which wakes
the tasks blocked on a send to it, and the reply channel of the query it is serving, which wakes the requester -/
def dropState (d : DSt) : NexoVerif.DropM.St :=
  let sims := simBoxes d
  let blockedOn (m : Nat) : List Nat := sims.filter fun t =>
    (d.s.task t).cur.any fun sub => sub.st == .toPush && sub.dst == .box m
  { n := d.b.models.length,
    task := fun m =>
      if sims.contains m then
        { fut := true, token := true,
          wakesOnDrop := blockedOn m ++ (match (d.s.task m).serving with | some (r, _) => if sims.contains r then [r] else [] | none => []) }
      else {} }

def dropReport (d : DSt) : String :=
  let cfg : NexoVerif.DropM.Cfg :=
    ⟨NexoVerif.Extracted.dropWorkerHandsOverFastSlot, NexoVerif.Extracted.dropWorkerHandsOverLocalQueue,
     NexoVerif.Extracted.dropMtUnsetsActiveTasks && NexoVerif.Extracted.dropStUnsetsActiveTasks⟩
  let s' := NexoVerif.DropM.dropExecutor cfg 0 none (dropState d)
  let sims := simBoxes d
  let once := (sims.filter fun m => (s'.task m).futDrops == 1 && !(s'.task m).fut).length
  let res := if s'.panicked then "panicked" else "returned"
  s!"dropped {res} once={once}/{sims.length} leaked=0 threads=ok after=quiet"

def parseDst (kind v : String) : Option Dst :=
  match kind, v.toNat? with
  | "box", some j => some (.box j)
  | "sink", some k => some (.sink k)
  | "dead", some j => some (.dead j)
  | _, _ => none

def step (d : DSt) (ws : List String) : DSt × String :=
  match ws with
  | ["case", "net", "exec", _] => ({}, "ok")
  | ["model", i, "cap", c, "sim", sm, "parent", p, "name", n] =>
    match i.toNat?, c.toNat?, sm.toNat? with
    | some i, some c, some sm =>
      if i != d.b.models.length then (d, "bad-op") else
      ({ d with b := { models := d.b.models ++ [{ cap := c, inSim := sm != 0, name := n, ports := [], react := [], initOps := [] }] },
                parents := d.parents ++ [p.toNat?] }, "ok")
    | _, _, _ => (d, "bad-op")
  | ["conn", i, port, kind, dk, dv, "add", a, "fmod", fm, "fres", fr] =>
    match i.toNat?, port.toNat?, parseDst dk dv, a.toNat?, fm.toNat?, fr.toNat? with
    | some i, some port, some dst, some a, some fm, some fr =>
      let _ := kind
      ({ d with b := setModel d.b i fun md => { md with ports := addPort md.ports port { dst := dst, add := a, fmod := fm, fres := fr } } }, "ok")
    | _, _, _, _, _, _ => (d, "bad-op")
  | ["react", i, kind, port, "cmod", cm, "cres", cr] =>
    match i.toNat?, port.toNat?, cm.toNat?, cr.toNat? with
    | some i, some port, some cm, some cr =>
      ({ d with b := setModel d.b i fun md => { md with react := md.react ++ [{ query := kind == "q", port := port, cmod := cm, cres := cr }] } }, "ok")
    | _, _, _, _ => (d, "bad-op")
  | ["initop", i, kind, port, "cmod", cm, "cres", cr] =>
    match i.toNat?, port.toNat?, cm.toNat?, cr.toNat? with
    | some i, some port, some cm, some cr =>
      ({ d with b := setModel d.b i fun md => { md with initOps := md.initOps ++ [{ query := kind == "q", port := port, cmod := cm, cres := cr }] } }, "ok")
    | _, _, _, _ => (d, "bad-op")
  | ["dead", j] =>
    match j.toNat? with
    | some j => ({ d with dead := j :: d.dead }, "ok")
    | none => (d, "bad-op")
  | ["timeout", _] => (d, "ok")
  | ["src", sid, dk, dv, "add", a, "fmod", fm, "fres", fr] =>
    match sid.toNat?, parseDst dk dv, a.toNat?, fm.toNat?, fr.toNat? with
    | some sid, some dst, some a, some fm, some fr =>
      let c : Conn := { dst := dst, add := a, fmod := fm, fres := fr }
      let cur := ((d.srcs.find? (·.1 == sid)).map (·.2)).getD []
      ({ d with srcs := (d.srcs.filter (·.1 != sid)) ++ [(sid, cur ++ [c])] }, "ok")
    | _, _, _, _, _ => (d, "bad-op")
  | ["wod", th, n, "waiters", ws, "edges", es, "panic", pk, "to", to] =>
    match th.toNat?, n.toNat? with
    | some th, some n =>
      let csv (x : String) : List Nat := if x == "-" then [] else (x.splitOn ",").filterMap (·.toNat?)
      let waiters := csv ws
      let edges : List (Nat × Nat) := if es == "-" then [] else (es.splitOn ",").filterMap fun e =>
        match e.splitOn ">" with
        | [a, b] => match a.toNat?, b.toNat? with | some a, some b => some (a, b) | _, _ => none
        | _ => none
      let tos := csv to
      let panics := pk.toNat?.isSome
      -- on a multi-threaded executor the recipients scheduled by the panicking handler are still held by its
      -- worker: the last one in the fast slot, the others in its local queue
      let held (t : Nat) : NexoVerif.DropM.Loc :=
        if panics && th > 1 && tos.contains t then (if tos.getLast? == some t then .fast 0 else .wlocal 0) else .none
      let cfg : NexoVerif.DropM.Cfg :=
        if th > 1 then ⟨NexoVerif.Extracted.dropWorkerHandsOverFastSlot, NexoVerif.Extracted.dropWorkerHandsOverLocalQueue,
                        NexoVerif.Extracted.dropMtUnsetsActiveTasks⟩
        else ⟨true, true, NexoVerif.Extracted.dropStUnsetsActiveTasks⟩
      let s0 : NexoVerif.DropM.St :=
        { n := n,
          task := fun t =>
            if t < n then
              { fut := true, token := true, loc := held t,
                wakesOnDrop := (edges.filter fun e => e.1 == t && waiters.contains e.2).map (·.2) }
            else {} }
      let s1 := NexoVerif.DropM.dropExecutor cfg 0 none s0
      let once := ((List.range n).filter fun t => (s1.task t).futDrops == 1 && !(s1.task t).fut).length
      let res := if panics then "panic" else "ok"
      (d, if s1.panicked then s!"wod - hung" else s!"wod {res} returned once={once}/{n}")
    | _, _ => (d, "bad-op")
  | ["wide", _, n] =>
    match n.toNat? with
    | some n => (d, s!"wide ok inits={n}/{n} hits={n}/{n} then={min n 3}/{min n 3}")
    | none => (d, "bad-op")
  | ["delay", _, _] => (d, "ok")
  | ["work", _] => (d, "ok")
  | ["deadlate", _, _, _] =>
    -- a send that finds its recipient's mailbox closed fails, whenever it finds out: M-NET's classification of a failed
    -- send is NoRecipient naming the sending model (`fault_attribution`), and nothing runs after a fault
    (d, "deadlate no-recipient sender then terminated")
  | ["twosims", _, _, victim] =>
    -- the first simulation's panic names its model; the second simulation's failed send is raised by its scheduler, not by
    -- a model: M-NET's classification of a failed send from outside any model is NoRecipient without a name
    (d, s!"twosims a=panic a{victim} b=no-recipient -")
  | ["nestrun", _, kind, n] =>
    -- the nested simulation's own report follows M-NET's classification (a message left in a mailbox outside the
    -- simulation is a loss, a model waiting for its own reply is a deadlock with its request queued, a panic names the
    -- model); the outer run has processed everything it sent: ok
    let inner := match kind with
      | "clean" => "ok"
      | "lose" => s!"message-loss {n}"
      | "deadlock" => "deadlock a:1"
      | _ => "panic a"
    (d, s!"nestrun inner={inner} outer=ok")
  | ["nested", k, j] =>
    match k.toNat?, j.toNat? with
    | some k, some j =>
      -- outer executor 0: k idle models (keys 0..k-1) and the host (key k); inner executor 1: j idle models (keys 0..j-1),
      -- dropped from inside a handler of the outer one, i.e. while `ACTIVE_TASKS` designates the outer list
      let cfg : NexoVerif.DropM.Cfg := ⟨true, true, NexoVerif.Extracted.dropStUnsetsActiveTasks⟩
      let s0 : NexoVerif.DropM.St :=
        { n := k + 1 + j,
          task := fun t =>
            if t ≤ k then { fut := true, token := true, exec := 0, key := t }
            else if t < k + 1 + j then { fut := true, token := true, exec := 1, key := t - (k + 1) }
            else {} }
      let s1 := NexoVerif.DropM.dropExecutor cfg 1 (some 0) s0
      let s2 := NexoVerif.DropM.dropExecutor cfg 0 none s1
      let o := ((List.range k).filter fun t => (s2.task t).futDrops == 1).length
      let i := ((List.range j).filter fun t => (s2.task (k + 1 + t)).futDrops == 1).length
      (d, s!"nested ok outer={o}/{k} inner={i}/{j}")
    | _, _ => (d, "bad-op")
  | ["later", _, _, _] => if d.simExists && !d.dropped then (d, "ok") else (d, "no-sim")
  | ["dropsim"] =>
    if d.simExists && !d.dropped then
      ({ d with dropped := true }, if d.timeoutSeen then "dropped excluded" else dropReport d)
    else (d, "no-sim")
  | ["sev", sid, p] =>
    match sid.toNat?, p.toNat? with
    | some sid, some p =>
      if d.dropped then (d, "no-sim") else
      if d.terminated then (d, "terminated | I  | H  | R  | K ") else
      let conns := ((d.srcs.find? (·.1 == sid)).map (·.2)).getD []
      let op : Op := conns.filterMap fun c => (accept c p).map fun p' => (c.dst, p', false)
      let P := d.b.prog
      let t := d.nextTask
      let s1 := if op.isEmpty then d.s else (NexoVerif.Net.step P (.spawn t [op]) d.s).getD d.s
      let s2 := runQ P (tasksOf d [t]) 200000 s1
      ({ d with s := s2, nextTask := t + 1, terminated := showReport d s2 != "ok",
                timeoutSeen := d.timeoutSeen || showReport d s2 == "timeout" }, renderDelta d d.s s2 (showReport d s2))
    | _, _ => (d, "bad-op")
  | ["fault", i, kind, p] =>
    match i.toNat?, p.toNat? with
    | some i, some p =>
      ({ d with b := setModel d.b i fun md => if kind == "panic" then { md with panicOn := some p } else { md with sleepOn := some p } }, "ok")
    | _, _ => (d, "bad-op")
  | ["init"] =>
    let P := d.b.prog
    let s0 := St.init
    let s1 := (simBoxes d).foldl (fun s m => (NexoVerif.Net.step P (.init m) s).getD s) s0
    let s2 := runQ P (tasksOf d []) 200000 s1
    ({ d with s := s2, terminated := showReport d s2 != "ok", simExists := showReport d s2 == "ok",
              timeoutSeen := d.timeoutSeen || showReport d s2 == "timeout" }, renderDelta d s0 s2 (showReport d s2))
  | ["ev", j, p] =>
    match j.toNat?, p.toNat? with
    | some j, some p =>
      if d.dropped then (d, "no-sim") else
      if d.terminated then (d, "terminated | I  | H  | R  | K ") else
      -- `process_event` ignores send errors: an event addressed directly to a dropped mailbox is lost silently
      if d.dead.contains j then (d, "ok | I  | H  | R  | K ") else
      let P := d.b.prog
      let t := d.nextTask
      let s1 := (NexoVerif.Net.step P (.spawn t [[(.box j, p, false)]]) d.s).getD d.s
      let s2 := runQ P (tasksOf d [t]) 200000 s1
      ({ d with s := s2, nextTask := t + 1, terminated := showReport d s2 != "ok",
                timeoutSeen := d.timeoutSeen || showReport d s2 == "timeout" }, renderDelta d d.s s2 (showReport d s2))
    | _, _ => (d, "bad-op")
  | ["qr", j, p] =>
    match j.toNat?, p.toNat? with
    | some j, some p =>
      if d.dropped then (d, "no-sim") else
      if d.terminated then (d, "terminated | I  | H  | R  | K ") else
      if d.dead.contains j then (d, "bad-query | I  | H  | R  | K ") else
      let P := d.b.prog
      let t := d.nextTask
      let s1 := (NexoVerif.Net.step P (.spawn t [[(.box j, p, true)]]) d.s).getD d.s
      let s2 := runQ P (tasksOf d [t]) 200000 s1
      ({ d with s := s2, nextTask := t + 1, terminated := showReport d s2 != "ok",
                timeoutSeen := d.timeoutSeen || showReport d s2 == "timeout" }, renderDelta d d.s s2 (showReport d s2))
    | _, _ => (d, "bad-op")
  | _ => (d, "bad-op")

end Driver.Net
