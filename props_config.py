"""Per-property configuration of check.py: which theorem module, which model, which engines."""

TRUSTED_BASE_COMMON = [
    "Lean 4.33.0 kernel (thorough tier: re-checked with leanchecker)",
    "axioms allowed in property theorems: propext, Classical.choice, Quot.sound (audited with #print axioms on every run)",
    "correspondence check: /verif/harness (Rust, in-process calls into /repo built with --cfg nexosim_verif) + /verif/lean/Driver (line protocol); differential testing bounds what the tie sees",
]

PROPS = {
    "C17": {
        "props_module": "NexoVerif.Props.C17",
        "model": "M-SINK (NexoVerif/Model/Sink.lean)",
        "engines": [{
            "name": "sinks",
            "rule": "one sink per case (EventBuffer cap 1..16 / EventSlot / EventBuffer fed by a simulated model through Output::connect_sink, map_connect_sink, filter_map_connect_sink); ops write/next/open/close/burst, final drain; all sequences up to length 5 (quick) / 8 (thorough) enumerated, then random ones up to 5000 ops; non-trivial = some write accepted and some event read back or evicted; distinct by hash of requests+responses",
        }],
        "assumptions": [
            "std::sync::Mutex, VecDeque and AtomicBool behave as documented",
            "EventSlot is modelled for operation sequences (try_lock never contended), see DESIGN 7.3",
            "sending order through an Output is the order of the model's send().await calls (C02/C03 cover delivery)",
        ],
        "trusted_base": ["M-SINK is hand-written from event_buffer.rs / event_slot.rs; tied by the `sinks` engine"],
        "explanation": "theorems buf_bounded, buf_suffix, buf_overflow_recent, buf_next_oldest, slot_last, slot_once, closed_ignores, reopen_restores hold for every capacity>=1 and every operation sequence; the engine runs the real EventBuffer/EventSlot and the Lean model on identical request lines",
    },
}
