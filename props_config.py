"""Per-property configuration of check.py: which theorem module, which model, which engines."""

TRUSTED_BASE_COMMON = [
    "Lean 4.33.0 kernel (thorough tier: re-checked with leanchecker)",
    "axioms allowed in property theorems: propext, Classical.choice, Quot.sound (audited with #print axioms on every run)",
    "correspondence check: /verif/harness (Rust, in-process calls into /repo built with --cfg nexosim_verif) + /verif/lean/Driver (line protocol); differential testing bounds what the tie sees",
]

PROPS = {
    "C17": {
        "props_module": "NexoVerif.Props.C17",
        "model": "M-SINK (NexoVerif/Model/Sink.lean)",
        "engines": [{
            "name": "sinks",
            "rule": "one sink per case (EventBuffer cap 1..16 / EventSlot / EventBuffer fed by a simulated model through Output::connect_sink, map_connect_sink, filter_map_connect_sink); ops write/next/open/close/burst, final drain; all sequences up to length 5 (quick) / 8 (thorough) enumerated, then random ones up to 5000 ops; non-trivial = some write accepted and some event read back or evicted; distinct by hash of requests+responses",
        }],
        "assumptions": [
            "std::sync::Mutex, VecDeque and AtomicBool behave as documented",
            "EventSlot is modelled for operation sequences (try_lock never contended), see DESIGN 7.3",
            "sending order through an Output is the order of the model's send().await calls (C02/C03 cover delivery)",
        ],
        "trusted_base": ["M-SINK is hand-written from event_buffer.rs / event_slot.rs; tied by the `sinks` engine"],
        "level_text": "Lean 4 theorems over the executable model M-SINK for every capacity >= 1 and every operation sequence (bounded, suffix/FIFO, overflow keeps the most recent cap, slot yields last write once, closed ignores, reopen restores); the model is tied to event_buffer.rs/event_slot.rs on every run by running both on the same enumerated and random operation sequences",
        "level_note": "trusted: Lean kernel; axioms propext/Classical.choice/Quot.sound; the differential harness; Mutex/VecDeque; EventSlot modelled sequentially",
        "explanation": "theorems buf_bounded, buf_suffix, buf_overflow_recent, buf_next_oldest, slot_last, slot_once, closed_ignores, reopen_restores hold for every capacity>=1 and every operation sequence; the engine runs the real EventBuffer/EventSlot and the Lean model on identical request lines",
    },
    "C20": {
        "props_module": "NexoVerif.Props.C20",
        "model": "M-PQ (NexoVerif/Model/PQ.lean)",
        "engines": [{
            "name": "pq",
            "rule": "one queue per case (PriorityQueue / IndexedPriorityQueue through the verif hooks); ops insert/pull/peek (+peek_key/len/extract(raw key)); all sequences up to length 5 (pq) / 4 (ipq, extract over every raw key with slot<3, epoch<4) in quick, 7 / 5 in thorough, then random ones up to 3000 (quick) / 20000 (thorough) ops with few distinct keys; extract targets live, stale, reused-slot and forged keys; final drain; non-trivial = equal keys queued together, or both an extract hit and an extract miss; distinct by hash of requests+responses",
        }],
        "assumptions": [
            "std::collections::BinaryHeap::pop/peek return a greatest element w.r.t. Ord (modelled as maxItem over the content)",
            "the binary heap inside IndexedPriorityQueue (heap vector, sift_up/sift_down) is abstracted to 'used node with the least (key, epoch)'; the slab, free list, epochs and raw InsertKeys are modelled exactly and compared with the real code",
            "u64 epoch overflow (assert_ne!(epoch, u64::MAX)) is out of scope: Nat in the model",
        ],
        "trusted_base": ["M-PQ is hand-written from priority_queue.rs / indexed_priority_queue.rs; tied by the `pq` engine (responses and raw insert keys)"],
        "explanation": "theorems item_cmp_reversed_lex, pq_inv, pq_pull_min, pq_fifo_among_equal_keys, pq_refines_stable_sorted_list, ipq_pull_min, key_no_alias, key_finds_own_entry, stale_key_rejected, epochs_below_reachable hold for every history; the engine runs the real queues and the Lean model on identical request lines",
        "level_text": "Lean 4 theorems over M-PQ for every operation history: the scheduler queue refines a stable sorted list (minimum key, FIFO among equal keys); an IndexedPriorityQueue insert key extracts its own entry or nothing after any history incl. slot reuse; tied to the code by differential runs comparing responses and raw (slab_idx, epoch) keys",
        "level_note": "trusted: Lean kernel, propext/Classical.choice/Quot.sound, the differential harness, BinaryHeap; the indexed queue's internal heap is abstracted (sift_up/sift_down not transliterated) — its ordering behaviour is covered by the correspondence only",
    },
}
