"""Per-property configuration of check.py: which theorem module, which model, which engines."""

TRUSTED_BASE_COMMON = [
    "Lean 4.33.0 kernel (thorough tier: re-checked with leanchecker)",
    "axioms allowed in property theorems: propext, Classical.choice, Quot.sound (audited with #print axioms on every run)",
    "correspondence check: /verif/harness (Rust, in-process calls into /repo built with --cfg nexosim_verif) + /verif/lean/Driver (line protocol); differential testing bounds what the tie sees",
]

PROPS = {
    "C17": {
        "props_module": "NexoVerif.Props.C17",
        "model": "M-SINK (NexoVerif/Model/Sink.lean)",
        "engines": [{
            "name": "sinks",
            "rule": "one sink per case (EventBuffer cap 1..16 / EventSlot / EventBuffer fed by a simulated model through Output::connect_sink, map_connect_sink, filter_map_connect_sink); ops write/next/open/close/burst, final drain; all sequences up to length 5 (quick) / 8 (thorough) enumerated, then random ones up to 5000 ops; non-trivial = some write accepted and some event read back or evicted; distinct by hash of requests+responses",
        }],
        "assumptions": [
            "std::sync::Mutex, VecDeque and AtomicBool behave as documented",
            "EventSlot is modelled for operation sequences (try_lock never contended), see DESIGN 7.3",
            "sending order through an Output is the order of the model's send().await calls (C02/C03 cover delivery)",
        ],
        "trusted_base": ["M-SINK is hand-written from event_buffer.rs / event_slot.rs; tied by the `sinks` engine"],
        "level_text": "Lean 4 theorems over the executable model M-SINK for every capacity >= 1 and every operation sequence (bounded, suffix/FIFO, overflow keeps the most recent cap, slot yields last write once, closed ignores, reopen restores); the model is tied to event_buffer.rs/event_slot.rs on every run by running both on the same enumerated and random operation sequences",
        "level_note": "trusted: Lean kernel; axioms propext/Classical.choice/Quot.sound; the differential harness; Mutex/VecDeque; EventSlot modelled sequentially",
        "explanation": "theorems buf_bounded, buf_suffix, buf_overflow_recent, buf_next_oldest, slot_last, slot_once, closed_ignores, reopen_restores hold for every capacity>=1 and every operation sequence; the engine runs the real EventBuffer/EventSlot and the Lean model on identical request lines",
    },
    "C20": {
        "props_module": "NexoVerif.Props.C20",
        "model": "M-PQ (NexoVerif/Model/PQ.lean)",
        "engines": [{
            "name": "pq",
            "rule": "one queue per case (PriorityQueue / IndexedPriorityQueue through the verif hooks); ops insert/pull/peek (+peek_key/len/extract(raw key)); all sequences up to length 5 (pq) / 4 (ipq, extract over every raw key with slot<3, epoch<4) in quick, 7 / 5 in thorough, then random ones up to 3000 (quick) / 20000 (thorough) ops with few distinct keys; extract targets live, stale, reused-slot and forged keys; final drain; non-trivial = equal keys queued together, or both an extract hit and an extract miss; distinct by hash of requests+responses",
        }],
        "assumptions": [
            "std::collections::BinaryHeap::pop/peek return a greatest element w.r.t. Ord (modelled as maxItem over the content)",
            "the binary heap inside IndexedPriorityQueue (heap vector, sift_up/sift_down) is abstracted to 'used node with the least (key, epoch)'; the slab, free list, epochs and raw InsertKeys are modelled exactly and compared with the real code",
            "u64 epoch overflow (assert_ne!(epoch, u64::MAX)) is out of scope: Nat in the model",
        ],
        "trusted_base": ["M-PQ is hand-written from priority_queue.rs / indexed_priority_queue.rs; tied by the `pq` engine (responses and raw insert keys)"],
        "explanation": "theorems item_cmp_reversed_lex, pq_inv, pq_pull_min, pq_fifo_among_equal_keys, pq_refines_stable_sorted_list, ipq_pull_min, key_no_alias, key_finds_own_entry, stale_key_rejected, epochs_below_reachable hold for every history; the engine runs the real queues and the Lean model on identical request lines",
        "level_text": "Lean 4 theorems over M-PQ for every operation history: the scheduler queue refines a stable sorted list (minimum key, FIFO among equal keys); an IndexedPriorityQueue insert key extracts its own entry or nothing after any history incl. slot reuse; tied to the code by differential runs comparing responses and raw (slab_idx, epoch) keys",
        "level_note": "trusted: Lean kernel, propext/Classical.choice/Quot.sound, the differential harness, BinaryHeap; the indexed queue's internal heap is abstracted (sift_up/sift_down not transliterated) — its ordering behaviour is covered by the correspondence only",
    },
    "C01": {
        "props_module": "NexoVerif.Props.C01",
        "model": "M-SCHED (NexoVerif/Model/Sched.lean)",
        "engines": [{"name": "sched", "rule": "random benches of 1-4 probe models (mailbox capacity 1..512), 0-2 EventSources, handler scripts that schedule (once/keyed/periodic/keyed-periodic, relative/absolute, malformed: now/past deadlines, zero periods) and cancel on their own context, scripted clock lags with/without tolerance, Scheduler requests issued from inside Clock::synchronize (queue unlocked), 5-60 driver commands (schedule on inputs and through EventSource actions, cancel incl. stale keys, step, step_until incl. past targets, process_event, queue dumps through the verif hook); single-threaded and 2/3/4/8-thread executors; the implementation's observed delivery order is passed to the model as its schedule oracle and validated (every (time, origin, target) chain in epoch order); non-trivial = at least two handler executions; distinct by hash of requests+responses"}],
        "assumptions": ["the scheduler queue is modelled as a list sorted by (time, origin, epoch) with stable insertion (justified by C20's pq_refines_stable_sorted_list)", 'atomicity: each scheduling request and the locked part of step_to_next_bounded run under the queue mutex (std::sync::Mutex trusted); foreign requests are interleaved at the synchronisation point of a step', 'the run phase is any order of the spawned deliveries (oracle); executor correctness is C04/C05, mailbox FIFO is C02/C12', 'MonotonicTime arithmetic does not overflow (Nat nanoseconds); epochs do not reach u64::MAX'],
        "trusted_base": ["M-SCHED is hand-written from simulation.rs / scheduler.rs; tied by the `sched` engine (responses, canonical fire/sync log, queue dumps)"],
        "explanation": 'theorems time_monotone_pending_in_future, every_command_monotone, fire_at_deadline, step_idle_keeps_time, step_until_reaches_target, process_keeps_time, step_moves_to_earliest_pending',
        "level_text": "Lean 4 theorems over M-SCHED for every program, schedule oracle and command sequence: time never decreases, every pending deadline is strictly in the future after any command sequence, a handler run by a step sees exactly its deadline = the step's time, step_until returns with time = target (never diverges), process_event keeps the time, step moves to the earliest live deadline; tied to the code by differential runs of the real Simulation/Scheduler against the model",
        "level_note": "trusted: Lean kernel, propext/Classical.choice/Quot.sound, the differential harness and its canonicalisation (fires sorted per (model, origin) chain inside a time segment), Mutex; thread interleavings inside the executor are represented by the schedule oracle, not by real-thread exploration",
    },
    "C07": {
        "props_module": "NexoVerif.Props.C07",
        "model": "M-SCHED (NexoVerif/Model/Sched.lean) and M-SEQ (NexoVerif/Model/SeqFut.lean)",
        "engines": [{"name": "sched", "rule": "random benches of 1-4 probe models (mailbox capacity 1..512), 0-2 EventSources, handler scripts that schedule (once/keyed/periodic/keyed-periodic, relative/absolute, malformed: now/past deadlines, zero periods) and cancel on their own context, scripted clock lags with/without tolerance, Scheduler requests issued from inside Clock::synchronize (queue unlocked), 5-60 driver commands (schedule on inputs and through EventSource actions, cancel incl. stale keys, step, step_until incl. past targets, process_event, queue dumps through the verif hook); single-threaded and 2/3/4/8-thread executors; the implementation's observed delivery order is passed to the model as its schedule oracle and validated (every (time, origin, target) chain in epoch order); non-trivial = at least two handler executions; distinct by hash of requests+responses"}],
        "assumptions": ["the scheduler queue is modelled as a list sorted by (time, origin, epoch) with stable insertion (justified by C20's pq_refines_stable_sorted_list)", 'atomicity: each scheduling request and the locked part of step_to_next_bounded run under the queue mutex (std::sync::Mutex trusted); foreign requests are interleaved at the synchronisation point of a step', 'the run phase is any order of the spawned deliveries (oracle); executor correctness is C04/C05, mailbox FIFO is C02/C12', 'MonotonicTime arithmetic does not overflow (Nat nanoseconds); epochs do not reach u64::MAX', "that a group's members are sent in group order is proved over M-SEQ (the loop of SeqFuture::poll, read from the source; any polling pattern and readiness of the members); that a FIFO mailbox then hands them to the model in that order is C12; the combination (oracle validity) is additionally checked on every implementation trace (respectsChains)"],
        "trusted_base": ["M-SCHED is hand-written from simulation.rs / scheduler.rs; tied by the `sched` engine (responses, canonical fire/sync log, queue dumps)", "M-SEQ is hand-written from util/seq_futures.rs; tied by the extracted loop shape (seq_future_loop_shape) and by the scheduling-order monitor of the sched engine"],
        "explanation": 'theorems epoch_is_scheduling_order, periodic_occurrence_scheduled_when_previous_is_pulled, pulled_in_queue_order, one_sequential_task_per_origin, groups_members_share_key, seq_future_loop_shape, group_members_complete_in_list_order',
        "level_text": 'Lean 4 theorems over M-SCHED: epochs are assigned in acceptance order, periodic occurrences get theirs when the previous one is pulled, a step pulls actions in strictly increasing (time, origin, epoch) order and puts all same-(time, origin) actions into one sequential group; over M-SEQ: the members of a group complete in list order, each is polled only after all earlier ones completed, and Ready means all completed, for every polling pattern; the observed delivery order of every real run is validated chain by chain by the model driver',
        "level_note": "trusted: Lean kernel, propext/Classical.choice/Quot.sound, the differential harness and its canonicalisation (fires sorted per (model, origin) chain inside a time segment), Mutex; thread interleavings inside the executor are represented by the schedule oracle, not by real-thread exploration",
    },
    "C08": {
        "props_module": "NexoVerif.Props.C08",
        "model": "M-SCHED (NexoVerif/Model/Sched.lean)",
        "engines": [{"name": "sched", "rule": "random benches of 1-4 probe models (mailbox capacity 1..512), 0-2 EventSources, handler scripts that schedule (once/keyed/periodic/keyed-periodic, relative/absolute, malformed: now/past deadlines, zero periods) and cancel on their own context, scripted clock lags with/without tolerance, Scheduler requests issued from inside Clock::synchronize (queue unlocked), 5-60 driver commands (schedule on inputs and through EventSource actions, cancel incl. stale keys, step, step_until incl. past targets, process_event, queue dumps through the verif hook); single-threaded and 2/3/4/8-thread executors; the implementation's observed delivery order is passed to the model as its schedule oracle and validated (every (time, origin, target) chain in epoch order); non-trivial = at least two handler executions; distinct by hash of requests+responses"}],
        "assumptions": ["the scheduler queue is modelled as a list sorted by (time, origin, epoch) with stable insertion (justified by C20's pq_refines_stable_sorted_list)", 'atomicity: each scheduling request and the locked part of step_to_next_bounded run under the queue mutex (std::sync::Mutex trusted); foreign requests are interleaved at the synchronisation point of a step', 'the run phase is any order of the spawned deliveries (oracle); executor correctness is C04/C05, mailbox FIFO is C02/C12', 'MonotonicTime arithmetic does not overflow (Nat nanoseconds); epochs do not reach u64::MAX'],
        "trusted_base": ["M-SCHED is hand-written from simulation.rs / scheduler.rs; tied by the `sched` engine (responses, canonical fire/sync log, queue dumps)"],
        "explanation": 'theorems sched_accepts_iff, sched_rejected_no_effect, sched_accepted_is_pending, every_stepping_call_returns, pull_loop_complete, race_free, requests_and_time_writes_are_atomic_in_the_source; the sched engine also issues requests from a second thread that is inside the scheduler (parked in its Deadline conversion) when the stepping call starts (`race` commands)',
        "level_text": 'Lean 4 theorems over M-SCHED: a request is accepted iff deadline > now and period != 0, a rejected one changes nothing, an accepted one is queued with exactly its deadline, no stepping call diverges (fuel sufficiency from the invariant), nothing due is left behind by the pull loop, and foreign requests at the synchronisation point preserve the invariant (race freedom at lock granularity); plus monitors on the real code for the acceptance rule and a watchdog for non-returning calls',
        "level_note": "trusted: Lean kernel, propext/Classical.choice/Quot.sound, the differential harness and its canonicalisation (fires sorted per (model, origin) chain inside a time segment), Mutex; thread interleavings inside the executor are represented by the schedule oracle, not by real-thread exploration",
    },
    "C09": {
        "props_module": "NexoVerif.Props.C09",
        "model": "M-SCHED (NexoVerif/Model/Sched.lean)",
        "engines": [{"name": "sched", "rule": "random benches of 1-4 probe models (mailbox capacity 1..512), 0-2 EventSources, handler scripts that schedule (once/keyed/periodic/keyed-periodic, relative/absolute, malformed: now/past deadlines, zero periods) and cancel on their own context, scripted clock lags with/without tolerance, Scheduler requests issued from inside Clock::synchronize (queue unlocked), 5-60 driver commands (schedule on inputs and through EventSource actions, cancel incl. stale keys, step, step_until incl. past targets, process_event, queue dumps through the verif hook); single-threaded and 2/3/4/8-thread executors; the implementation's observed delivery order is passed to the model as its schedule oracle and validated (every (time, origin, target) chain in epoch order); non-trivial = at least two handler executions; distinct by hash of requests+responses"}],
        "assumptions": ["the scheduler queue is modelled as a list sorted by (time, origin, epoch) with stable insertion (justified by C20's pq_refines_stable_sorted_list)", 'atomicity: each scheduling request and the locked part of step_to_next_bounded run under the queue mutex (std::sync::Mutex trusted); foreign requests are interleaved at the synchronisation point of a step', 'the run phase is any order of the spawned deliveries (oracle); executor correctness is C04/C05, mailbox FIFO is C02/C12', 'MonotonicTime arithmetic does not overflow (Nat nanoseconds); epochs do not reach u64::MAX', 'EventSource keyed actions are not re-checked by the model once their step has begun (documented in source.rs; DESIGN 7.6)'],
        "trusted_base": ["M-SCHED is hand-written from simulation.rs / scheduler.rs; tied by the `sched` engine (responses, canonical fire/sync log, queue dumps)"],
        "explanation": 'theorems cancelled_before_step_not_spawned, cancelled_never_runs, cancelled_head_discarded_not_reinserted, periodic_occurrences_share_key, cancel_same_step_model_input, live_event_runs, cancel_is_local',
        "level_text": 'Lean 4 theorems over M-SCHED: actions whose key is cancelled when their step begins are never spawned nor run, discarded heads are not re-inserted, all occurrences of a periodic action share one key object, a model-input event cancelled before its model processes it is skipped, cancellation changes nothing but the cancelled-set and affects exactly the keys stored under that name',
        "level_note": "trusted: Lean kernel, propext/Classical.choice/Quot.sound, the differential harness and its canonicalisation (fires sorted per (model, origin) chain inside a time segment), Mutex; thread interleavings inside the executor are represented by the schedule oracle, not by real-thread exploration",
    },
    "C10": {
        "props_module": "NexoVerif.Props.C10",
        "model": "M-SCHED (NexoVerif/Model/Sched.lean)",
        "engines": [{"name": "sched", "rule": "random benches of 1-4 probe models (mailbox capacity 1..512), 0-2 EventSources, handler scripts that schedule (once/keyed/periodic/keyed-periodic, relative/absolute, malformed: now/past deadlines, zero periods) and cancel on their own context, scripted clock lags with/without tolerance, Scheduler requests issued from inside Clock::synchronize (queue unlocked), 5-60 driver commands (schedule on inputs and through EventSource actions, cancel incl. stale keys, step, step_until incl. past targets, process_event, queue dumps through the verif hook); single-threaded and 2/3/4/8-thread executors; the implementation's observed delivery order is passed to the model as its schedule oracle and validated (every (time, origin, target) chain in epoch order); non-trivial = at least two handler executions; distinct by hash of requests+responses"}],
        "assumptions": ["the scheduler queue is modelled as a list sorted by (time, origin, epoch) with stable insertion (justified by C20's pq_refines_stable_sorted_list)", 'atomicity: each scheduling request and the locked part of step_to_next_bounded run under the queue mutex (std::sync::Mutex trusted); foreign requests are interleaved at the synchronisation point of a step', 'the run phase is any order of the spawned deliveries (oracle); executor correctness is C04/C05, mailbox FIFO is C02/C12', 'MonotonicTime arithmetic does not overflow (Nat nanoseconds); epochs do not reach u64::MAX'],
        "trusted_base": ["M-SCHED is hand-written from simulation.rs / scheduler.rs; tied by the `sched` engine (responses, canonical fire/sync log, queue dumps)"],
        "explanation": 'theorems next_occurrence_exact, no_drift, occurrence_runs_exactly_at_its_deadline, partition_independent_horizon, zero_period_never_queued',
        "level_text": 'Lean 4 theorems over M-SCHED: pulling a periodic occurrence queues exactly the same action one period later, k-fold successors have deadline t0 + k*p (no drift), an occurrence is pulled only by the step whose time equals its deadline and none with deadline <= now is ever left pending after any command sequence (no skip, independent of the step/step_until partition); plus an arithmetic-progression monitor on the real code',
        "level_note": "trusted: Lean kernel, propext/Classical.choice/Quot.sound, the differential harness and its canonicalisation (fires sorted per (model, origin) chain inside a time segment), Mutex; thread interleavings inside the executor are represented by the schedule oracle, not by real-thread exploration",
    },
    "C18": {
        "props_module": "NexoVerif.Props.C18",
        "model": "M-SCHED (NexoVerif/Model/Sched.lean)",
        "engines": [{"name": "sched", "rule": "random benches of 1-4 probe models (mailbox capacity 1..512), 0-2 EventSources, handler scripts that schedule (once/keyed/periodic/keyed-periodic, relative/absolute, malformed: now/past deadlines, zero periods) and cancel on their own context, scripted clock lags with/without tolerance, Scheduler requests issued from inside Clock::synchronize (queue unlocked), 5-60 driver commands (schedule on inputs and through EventSource actions, cancel incl. stale keys, step, step_until incl. past targets, process_event, queue dumps through the verif hook); single-threaded and 2/3/4/8-thread executors; the implementation's observed delivery order is passed to the model as its schedule oracle and validated (every (time, origin, target) chain in epoch order); non-trivial = at least two handler executions; distinct by hash of requests+responses"}],
        "assumptions": ["the scheduler queue is modelled as a list sorted by (time, origin, epoch) with stable insertion (justified by C20's pq_refines_stable_sorted_list)", 'atomicity: each scheduling request and the locked part of step_to_next_bounded run under the queue mutex (std::sync::Mutex trusted); foreign requests are interleaved at the synchronisation point of a step', 'the run phase is any order of the spawned deliveries (oracle); executor correctness is C04/C05, mailbox FIFO is C02/C12', 'MonotonicTime arithmetic does not overflow (Nat nanoseconds); epochs do not reach u64::MAX', 'the status returned by the final synchronize of step_until is discarded by the code and by the model (DESIGN 7.1)'],
        "trusted_base": ["M-SCHED is hand-written from simulation.rs / scheduler.rs; tied by the `sched` engine (responses, canonical fire/sync log, queue dumps)"],
        "explanation": 'theorems sync_exactly_once_before_fires, locked_phase_logs_no_sync_no_fire, lag_gates_step, init_syncs_first, sync_argument_is_new_time, step_until_final_jump_syncs_target',
        "level_text": "Lean 4 theorems over M-SCHED: the unlocked part of a step logs exactly one synchronize(t), then only the handlers of time t; the locked part logs neither; a lag above the tolerance fails the step with OutOfSync before any handler of that time, otherwise it is ignored; init synchronises once on the start time first; the synchronised time is the (strictly later) new time; step_until's final jump synchronises on the target",
        "level_note": "trusted: Lean kernel, propext/Classical.choice/Quot.sound, the differential harness and its canonicalisation (fires sorted per (model, origin) chain inside a time segment), Mutex; thread interleavings inside the executor are represented by the schedule oracle, not by real-thread exploration",
    },
    "C15": {
        "props_module": "NexoVerif.Props.C15",
        "model": "M-SEQLOCK (NexoVerif/Model/SeqLock.lean) with the orderings of NexoVerif/Extracted.lean",
        "engines": [{"name": "synccell", "rule": "sequential write/read histories on the real SyncCell<TearableAtomicTime> (verif hook) vs the sequentially consistent run of the view machine; one case asking the model for a torn-read history under the orderings extracted from the current source (depth-first search, 2 writes, depth 22 quick / 34 thorough; the property answer is `none`); threaded stress runs (1-3 readers quick, 1-6 thorough) with correlated seconds/nanoseconds, per-reader monotonicity and read-after-published checks; non-trivial = a write followed by a read; distinct by hash"}],
        "assumptions": [
            "memory model: the view-based release/acquire machine of Model/SeqLock.lean (per-location modification order = writer program order, views for release/acquire/fences); no SC fences, no RMWs, one writer (SyncCell is !Sync), one reader thread modelled (readers do not interact)",
            "usize sequence counter does not wrap (Nat)",
            "MonotonicTime::new(secs, nanos).unwrap() cannot panic on a torn pair: any nanos value stored is < 1e9 (tai_time invariant), so every (secs, nanos) mix is valid",
            "x86-64 hardware runs cannot exhibit most weak-memory tears; the threaded stress is a sanity check, the theorem is the argument",
        ],
        "trusted_base": ["extract/extract.py (atomic-operation sequences and orderings of sync_cell.rs / monotonic_time.rs -> Extracted.lean, regenerated on every run)", "M-SEQLOCK's machine is hand-written"],
        "explanation": "theorems extracted_shape, extracted_orderings_sufficient (re-checked against the source on every run), no_torn_read_any_sufficient_orderings, time_reads_never_torn, reader_never_goes_backwards, writer_appends_only, runs_are_reachable",
        "level_text": "Lean 4 proof in a view-based release/acquire model of SyncCell: for every execution (any number of writes, any interleaving, any coherent stale reads) a successful try_read returns both halves of one write and a reader never goes backwards; the orderings and operation sequences are extracted from the current source on every run and the sufficiency lemma is re-proved, so a weakened Ordering breaks the proof (and the model then searches for a torn-read history to report)",
        "level_note": "trusted: Lean kernel, propext/Classical.choice/Quot.sound, the extractor, the hand-written memory-model machine (a fragment of C11 release/acquire without SC fences); differential harness for the sequential behaviour",
        "technique": "Lean 4 proof over a release/acquire view machine parametrised by orderings extracted from the source",
    },
    "C13": {
        "props_module": "NexoVerif.Props.C13",
        "model": "M-TASK (NexoVerif/Model/Task.lean, TaskRun.lean) with the layout constants of NexoVerif/Extracted.lean",
        "engines": [{"name": "task", "rule": "one real task per case (spawn / spawn_and_forget through the verif hooks) with a scripted future (per poll: clone/wake/drop wakers, cancel its own token, Pending/Ready) and scripted destructors of the future and of the output (wake/drop wakers, cancel); operation sequences over run, drop runnable, wake by ref/value, clone/drop waker, cancel, drop token, promise poll/drop; all sequences up to length 5 (quick, strided beyond 4000 per script) / 7 (thorough) over 8 ops x 7 scripts x 2 spawn kinds x 4 destructor settings, then random ones; observables after every op: scheduled runnables, polls, future drops, output releases, deallocations (counting allocator), promise stage; non-trivial = at least one poll and one wake/cancel; distinct by hash"}],
        "assumptions": [
            "atomics are sequentially consistent in M-TASK (a weakened Ordering in task.rs is invisible to this proof; the repository's loom tests are the search tool for that)",
            "the encoding layer (state word <-> fields) is tied by the differential engine and by layout_constants, not by a bit-level proof; reference/wake counters do not overflow (Nat)",
            "panicking futures/outputs are modelled only through the poll-panic transition",
            "real-thread interleavings at RMW granularity are covered by the theorem (all interleavings), the correspondence drives the handles sequentially, including re-entrant use from inside poll and from destructors",
        ],
        "trusted_base": ["M-TASK is hand-written from task.rs / runnable.rs / promise.rs / cancel_token.rs; tied by the `task` engine", "extract/extract.py for the layout constants and initial state words"],
        "explanation": "theorems task_never_misbehaves, everything_released_exactly_once, single_poller, wake_while_pending_leads_to_poll, running_runnable_repolls, handle_operations_are_executions, layout_constants",
        "level_text": "Lean 4 invariant proof over the task transition system (25 atomic transitions, unboundedly many wakers, every interleaving): no protocol violation, at most one Runnable/poller, no poll after completion/cancellation, a wake while pending leads to another poll, future/output/memory released exactly once when all handles are gone; tied to the code by running the real handles and the model's composite operations on identical operation sequences (incl. re-entrant wakes/cancels from poll and from destructors) and comparing scheduling calls, polls, drops and deallocations",
        "level_note": "trusted: Lean kernel, propext/Classical.choice/Quot.sound, the differential harness (sequential handle operations), SC atomics in the model; weak-memory effects are out of reach of this proof",
    },
    "C12": {
        "props_module": "NexoVerif.Props.C12",
        "model": "M-QUEUE (NexoVerif/Model/Queue.lean), M-QUEUE-C (QueueC.lean), M-CHAN (Chan.lean)",
        "engines": [{"name": "queue", "rule": "the real mailbox queue Queue<usize> through the verif hook; sequential histories over push/pop/release(MessageBorrow drop)/close/len: all histories up to length 7 (quick) / 9 (thorough) for capacities 1-4, random ones up to 4000/10000 operations for capacities 1-9, 16, 17; responses AND raw words (enqueue_pos, dequeue_pos, every stamp) compared after each operation; real-thread runs (1-3 producers with per-producer sequence numbers, one consumer, a closer thread; 40 rounds quick / 3000 thorough per configuration) checking per-producer FIFO, exactly-once and that every accepted push is received before Closed; non-trivial = queue full at least once or wrapped around; distinct by hash"},
                    {"name": "net", "rule": "the mailbox in its real setting (see C03): benches with capacities 1-4 in which several senders block on one full mailbox while the receiver drains it, on 1-8 threads; a handler still suspended on a channel operation after every call returned Ok is a lost wake-up (monitor), a lost or duplicated message is a C03/C12 monitor hit"}],
        "assumptions": [
            "L2 (concurrent producers at atomic-step granularity) is proved over M-QUEUE-C for sequentially consistent atomics and logical positions; the Acquire/Release orderings of the stamp accesses are extracted (queue_program_shape) but the proof does not use a weak memory model (the repository's loom tests are the search tool for that); L3 (sender/receiver notification, no lost wake-up) is proved over M-CHAN: any number of senders, the lock-protected wait-set operations of async_event::Event and the register/notify operations of DiatomicWaker as atomic steps, spurious polls, every interleaving; the queue enters as the two counters M-QUEUE-C justifies",
            "async-event 0.2.1 and diatomic-waker 0.2.3 are external crates: their protocol is modelled from their source (WaitUntil::poll, WaitSet insert/remove/cancel/notify; DiatomicWaker wait_until/notify), not verified; the versions are read from Cargo.lock on every run (channel_protocol_shape); cancellation of a pending send (drop of the WaitUntil future) and closing are not in M-CHAN",
            "bit operations of queue.rs are read arithmetically (x & right_mask = x % M, etc.); this reading is tied by comparing the raw words after every operation",
            "usize positions do not wrap (Nat)",
        ],
        "trusted_base": ["M-QUEUE is hand-written from queue.rs; tied by the `queue` engine (responses and raw words)", "M-CHAN is hand-written from channel.rs and the two signalling crates; tied by the extracted shape of send / recv (predicates, unconditional notify_one after the message is dropped, receiver notification after a push) and by the net engine's blocked-sender runs with the lost-wake-up monitor"],
        "explanation": "theorems next_pos_is_successor, closed_flag_is_disjoint, positions_strictly_increase, step_refines, seq_refines, len_is_number_held, spec_bounded, spec_fifo_lossless (sequential, bit-level encoding); never_more_than_capacity, received_in_claim_order_exactly_once, each_producer_in_its_own_order, full_only_when_full, closed_only_when_drained, a_pop_reads_a_published_slot, loaded_pos_le, queue_program_shape (any number of concurrent producers, every interleaving of atomic steps); channel_protocol_shape, no_sender_or_receiver_sleeps_through_a_wakeup, a_wakeup_is_always_on_its_way, mailbox_counters_stay_consistent, notifying_only_when_leaving_full_loses_a_wakeup (wake-up protocol, any number of senders)",
        "level_text": "Lean 4 refinement proof: for every capacity >= 1 and every sequential history the transliterated queue (positions, stamps, closed flag, outstanding borrow) answers exactly like a bounded FIFO specification (Full iff capacity reached, FIFO, exactly once, Closed only when drained, len = number held), with the position arithmetic proved for non-power-of-two capacities; and an invariant proof over the concurrent transition system of the queue (any number of producers and the consumer, every interleaving of their atomic steps, SC): never more than capacity claimed-and-unreleased positions, messages received exactly once in claim order, each producer's messages in its own order, Full only when full, Closed only when drained, a pop reads a completely written slot; tied to queue.rs by differential runs that compare responses and the raw atomic words (the concurrent model is run next to the sequential one), by the extracted order and orderings of the atomic operations, and by real-thread runs; and an invariant proof over the wake-up protocol of channel.rs (M-CHAN, any number of senders, every interleaving incl. spurious polls): whenever nothing is in progress a sender sleeps only while the mailbox is full and the receiver only while it is empty, and in every state a sleeping sender with a free slot has a notification on its way; the weaker rule 'notify only when the pop left the full state' is refuted by a 26-step run",
        "level_note": "trusted: Lean kernel, propext/Classical.choice/Quot.sound, the differential harness; PARTIAL: the concurrent proofs are SC (no weak memory); the two signalling crates are modelled from their source, not verified; send cancellation and close are outside M-CHAN",
    },
    "C05": {
        "props_module": "NexoVerif.Props.C05",
        "model": "M-TASK (NexoVerif/Model/Task.lean): the model task is one future; isolation = the task is never polled twice at once",
        "engines": [
            {"name": "task", "rule": "see C13: real task handles driven sequentially incl. re-entrant wakes from poll and destructors; the number of scheduled Runnables is compared after every operation (a second Runnable = two concurrent polls)"},
            {"name": "sched", "rule": "real benches on 1/2/3/4/8 worker threads with a busy flag per model set on handler entry and cleared on exit: an overlap of two handlers of one model is a concrete violation"},
        ],
        "assumptions": [
            "a model, its receiver and its context are owned by one future (Rust ownership; add_model moves them into the model task)",
            "SC atomics in M-TASK; executors only move Runnables (work stealing is st3, trusted)",
            "handlers suspended on a send/query are part of the same future: their continuation runs on the next poll of the same task",
        ],
        "trusted_base": ["M-TASK hand-written; tied by the `task` engine; busy-flag monitor of the `sched` engine on real threads"],
        "explanation": "theorems at_most_one_runnable, only_the_runnable_polls, runnable_created_only_by_first_wake",
        "level_text": "Lean 4 theorems over the task transition system for every interleaving of wakers/workers/cancellation: at most one Runnable exists, only the Runnable polls and only when it is not already polling, a wake creates a Runnable only when the wake count goes 0 -> 1 in the polling phase; hence a model's init and handlers (one sequential future) never overlap; tied to the code by the task engine (scheduling calls compared after every handle operation) and by a per-model busy flag on real multi-threaded benches",
        "level_note": "trusted: Lean kernel, propext/Classical.choice/Quot.sound, Rust ownership (one future owns the model), SC atomics in the model, the differential harness",
    },

}

NET_RULE = ("random benches of 2-7 models (hierarchies of depth 0-3 built with add_submodel, mailbox capacities 1-4, orphan mailboxes "
    "never added to the simulation, event sinks), Output/Requestor ports connected plain / map / filter_map to inputs, repliers and sinks, "
    "content-deterministic handler and init scripts (sends, broadcasts, queries, conditional operations), saturating event loops and query "
    "cycles (stalls), injected faults (handler panic, mailbox dropped before the run, handler overrunning the step time-out), EventSource "
    "actions, 1-6 driver commands (process_event, process_query, scheduled events + step); each bench runs on the single-threaded executor "
    "or on a 2-8 thread executor; compared with the model's run to quiescence: result/error kind with attribution and exact deadlock list, "
    "multiset of handler invocations per command, replies, sink contents, init log, names; the implementation's own trace is also checked "
    "against the property predicates (monitors: causal order via vector pasts, exactly-once per accepted connection, ground-truth in-flight "
    "count through the channel-operation hook, init-before-handling, Terminated after a fatal error); non-trivial = at least three handler "
    "invocations; distinct by hash of requests+responses")
NET_ASSUME = [
    "interleaving granularity: one transition per channel operation (start of a port operation, one push, one pop, completion, handler return); a handler awaits only port operations",
    "the mailbox is a bounded FIFO with blocking senders (justified by C12's refinement theorem for the queue and by the queue/net engines for the wake-ups)",
    "the executors run every runnable task until none is left and return then; the multi-threaded executor's idle detection is modelled separately (M-POOL, theorems under C04 and C06), work stealing itself is not - single- and multi-threaded runs are compared with the model instead",
    "event ids, causal pasts and logs are ghost state of the model; the engine reconstructs them on the implementation side from unique payloads",
]
NET_TB = ["M-NET is hand-written from channel.rs, ports/output*.rs, ports/source*.rs, simulation.rs (run / add_model / error classification) and executor/*.rs (message counter); tied by the `net` engine"]
NET_NOTE = ("trusted: Lean kernel, propext/Classical.choice/Quot.sound, the differential harness (net engine) and its canonicalisation (multisets per command; stalled runs compared by kind plus the ground-truth monitor); "
    "executor internals and weak-memory effects are outside the model")

PROPS.update({
    "C03": {
        "props_module": "NexoVerif.Props.C03",
        "model": "M-NET (NexoVerif/Model/Net.lean, NetRun.lean)",
        "engines": [{"name": "net", "rule": NET_RULE}],
        "assumptions": NET_ASSUME + ["map/filter_map of a connection is applied when the port operation starts (one sub-send per accepting connection)"],
        "trusted_base": NET_TB,
        "explanation": "theorems mailbox_conservation, no_message_arrives_twice, processed_at_most_once, nothing_invented, completed_run_processed_everything, sends_are_fresh",
        "level_text": "Lean 4 invariant proofs over the message-passing transition system M-NET for every program, capacity and interleaving (unbounded): per mailbox arrivals = processed ++ queued, event ids are fresh and arrive at most once, nothing is processed twice or by another model, everything processed was sent to that mailbox, and a run that ends with counter 0 has processed every arrival exactly once; tied to the code by differential runs of real benches (ST and MT executors) with an exactly-once monitor on the implementation trace",
        "level_note": NET_NOTE,
    },
    "C06": {
        "props_module": "NexoVerif.Props.C06",
        "model": "M-NET (NexoVerif/Model/Net.lean, NetRun.lean) and M-POOL (NexoVerif/Model/Pool.lean)",
        "engines": [{"name": "net", "rule": NET_RULE}],
        "assumptions": NET_ASSUME + ["the counter of M-NET is the sum of the per-thread message counters; that run() reads exactly this sum when it sees the pool idle is proved over M-POOL (count_read_by_run_is_exact) for the order of publication and deactivation read from run_local_worker; qualified names of sub-models are compared by the engine, not modelled"],
        "trusted_base": NET_TB + ["channel-operation hook (cfg nexosim_verif) gives the engine the ground-truth number of sends and receives"],
        "explanation": "theorems counter_is_number_queued, no_false_report, ok_only_when_nothing_queued, deadlock_report_is_exact, message_loss_report_is_exact, report_kinds_are_exclusive, worker_loop_shape, count_read_by_run_is_exact, count_published_late_is_lost",
        "level_text": "Lean 4 theorems over M-NET for every reachable state: the in-flight counter equals the number of queued messages, a run with everything processed is reported ok, Deadlock lists exactly the simulation's non-empty mailboxes with exact sizes, MessageLoss(n) is reported exactly when the n queued messages all sit outside the simulation; over M-POOL the count run() reads when it sees the pool idle is the exact sum of all changes (nothing still thread-local), for the publication order read from the source - with the order as found before fix 13cb01f the model has a run that reads 0 with one message in flight; tied to the code by differential runs (stalling benches, orphan mailboxes, sub-models) and a ground-truth monitor fed by the channel-operation hook",
        "level_note": NET_NOTE,
    },
    "C02": {
        "props_module": "NexoVerif.Props.C02",
        "model": "M-NET (NexoVerif/Model/Net.lean, NetRun.lean)",
        "engines": [{"name": "net", "rule": NET_RULE}],
        "assumptions": NET_ASSUME + ["happens-before is the relation generated by program order between completed port operations of one task and send-to-processing (and reply) edges; it is carried as a ghost causal past on every packet (edges_are_recorded shows the three kinds of edges are recorded)"],
        "trusted_base": NET_TB,
        "explanation": "theorems causal_past_arrived_before, causal_delivery_order, processing_is_arrival_prefix, processed_in_causal_order, edges_are_recorded",
        "level_text": "Lean 4 theorems over M-NET for every program, capacity and interleaving, including all states with senders suspended on full mailboxes: every event in the causal past of a message was enqueued strictly earlier, so two causally ordered messages to one model arrive - and, mailboxes being FIFO, are processed - in causal order; tied to the code by differential runs and a causal-order monitor on the implementation's processing logs (1-8 worker threads)",
        "level_note": NET_NOTE,
    },
    "C16": {
        "props_module": "NexoVerif.Props.C16",
        "model": "M-NET (NexoVerif/Model/Net.lean, NetRun.lean)",
        "engines": [{"name": "net", "rule": NET_RULE}],
        "assumptions": NET_ASSUME + ["sub-models are entries of the flattened model list; the qualified name parent.child is compared by the engine (Context::name(), names in Deadlock/Panic reports), not modelled"],
        "trusted_base": NET_TB,
        "explanation": "theorems init_at_most_once, init_before_any_message, handled_implies_initialised, early_messages_are_kept, all_models_initialised_at_quiescence",
        "level_text": "Lean 4 theorems over M-NET: no model's init starts twice, a model pops its first message only after its init has returned, messages that arrive earlier are kept in order, and when initialisation reaches quiescence every model of the simulation has been initialised; tied to the code by differential runs of hierarchical benches whose init scripts send events and queries, comparing init logs, handler logs and names",
        "level_note": NET_NOTE,
    },
    "C11": {
        "props_module": "NexoVerif.Props.C11",
        "model": "M-NET (faults and report) and M-SCHED (is_terminated latch of the driver API)",
        "engines": [{"name": "net", "rule": NET_RULE},
                    {"name": "sched", "rule": "see C18/C01: scripted clock lags above the tolerance raise OutOfSync inside random driver sequences; every later step / step_until / process_event must answer Terminated and leave time, queue and log unchanged; past step_until targets (InvalidDeadline) must leave the simulation usable"}],
        "assumptions": NET_ASSUME + ["the panic payload is compared by the engine (downcast to the injected string), not modelled", "BadQuery is not modelled (process_query on a disconnected replier is exercised by the engine only)"],
        "trusted_base": NET_TB + ["M-SCHED hand-written from simulation.rs; tied by the `sched` engine"],
        "explanation": "theorems fault_attribution, report_classifies_faults, nothing_runs_after_a_fault, terminated_is_absorbing, stays_terminated_forever, invalid_deadline_is_not_fatal, only_fatal_errors_terminate",
        "level_text": "Lean 4 theorems: in M-NET a fault is raised only by the step that causes it and names the right model, the report has the right kind and attribution (NoRecipient names the sender, none for the scheduler) and nothing runs after a fault; in M-SCHED every run call on a terminated simulation returns Terminated and changes nothing, for every further call sequence, while InvalidDeadline is not fatal; tied to the code by differential runs that inject each fault kind at random points of a driver sequence and keep issuing calls afterwards",
        "level_note": NET_NOTE,
    },
    "C04": {
        "props_module": "NexoVerif.Props.C04",
        "model": "M-NET (NexoVerif/Model/Net.lean, NetRun.lean), M-TASK (NexoVerif/Model/Task.lean), M-POOL (NexoVerif/Model/Pool.lean) and M-INJ (NexoVerif/Model/Inj.lean)",
        "engines": [{"name": "net", "rule": NET_RULE},
                    {"name": "task", "rule": "see C13: real task handles driven sequentially incl. re-entrant wakes; the number of scheduled Runnables is compared after every operation (a lost or duplicated wake-up shows up as a missing or extra Runnable)"},
                    {"name": "inj", "rule": "the real injector queue (executor/mt_executor/injector.rs through the verif hook, buckets of 3): every sequence up to length 6 (quick) / 8 (thorough) over insert_task / push_bucket of 1 or 3 / pop_bucket, random ones up to 60 / 200 operations, each followed by a full drain; the bucket handed out (task order included) and the is_empty flag are compared after every operation; monitors: pop_bucket = None only when nothing is held, no empty bucket, no task duplicated or invented, is_empty exact"}],
        "assumptions": NET_ASSUME + [
            "schedule-independence of the multisets of handler invocations and of sink outputs is proved over M-NET (paths in the unfolding tree as ghost data); the engine additionally compares ST, MT (2-8 workers) and model runs",
            "M-POOL: the idle-detection protocol of mt_executor (worker loop head, pool manager flags, parking, Executor::run) at the granularity of its atomic steps, any number of workers, every interleaving, sequentially consistent; stealing, overflow to the injector and sibling activation are over-approximated (possible at any moment); its step structure and the position of the count publication are read from the source by the extractor (worker_loop_shape); the net engine perturbs the real protocol with seeded delays at six protocol points (cfg nexosim_verif)",
            "PARTIAL: abort signal, time-outs and worker panics are not in M-POOL; weak-memory effects of the pool manager's orderings are not modelled",
            "every mailbox has capacity >= 1 (enforced by Mailbox::with_capacity)"],
        "trusted_base": NET_TB + ["M-TASK hand-written; tied by the `task` engine", "M-POOL hand-written from mt_executor.rs / pool_manager.rs; tied by the extracted call order of the worker loop head and of Executor::run, the extracted shape of the pool manager operations, and by the net engine's multi-threaded runs"],
        "explanation": "theorems ok_step_is_complete, never_stuck_with_nothing_queued, blocked_only_on_channels, handler_invocations_are_schedule_independent, sink_outputs_are_schedule_independent, completed_run_is_the_unfolding_tree, every_execution_has_a_ghost_extension, ok_iff_nothing_queued, woken_task_has_a_runnable, run_returns_only_when_the_pool_is_idle, idle_detection_never_gets_stuck, tasks_left_in_the_injector_are_seen",
        "level_text": "Lean 4 theorems over M-NET for every interleaving: when the run returns Ok at quiescence no task is half-way, every mailbox is empty, every arrival has been processed and every model is initialised; a half-way task with nothing queued always has an enabled transition (no spurious stall), and a blocked task is blocked on a channel operation; any two completed executions of one program with the same driver requests have handled the same multiset of (model, payload) invocations and written the same multiset of (sink, payload) outputs - each is exactly the unfolding tree of the program, every node once (schedule independence, proved with event paths as ghost data); over M-TASK: a Runnable exists iff the state word says so (no lost wake-up); over M-POOL (any number of workers, every interleaving of the atomic steps): run() sees the pool idle only when the injector and all local queues are empty, no worker runs or searches and all thread-local counts are published, the protocol has no deadlock and the executor thread never waits while no worker has a step to take; PARTIAL: abort / time-out / panic paths of the pool and weak memory are outside M-POOL",
        "level_note": NET_NOTE + "; PARTIAL as stated in the assumptions",
    },
    "C14": {
        "props_module": "NexoVerif.Props.C14",
        "model": "M-BCAST (NexoVerif/Model/Bcast.lean)",
        "engines": [{"name": "bcast", "rule": "the real QueryBroadcaster<u64,u64> / BroadcastFuture / TaskSet with 0-6 scripted repliers (map, filter) through the verif hook: operation sequences over broadcast(arg, number of replies the caller reads) / poll / drop (cancellation) / reply available / wake of a stored sub-task waker (also spurious and stale wakers of a cancelled broadcast) / injected SendError / add connection; compared after every operation: poll result and reply list, number of polls of every sub-future, notifications of the caller's waker, mapped requests received by every replier; the real CachedRwLock<Vec<usize>> and real Output<u64> clones (connect_sink through one clone, send through another): all histories over clone/connect/send up to length 6 (quick) / 8 (thorough) for three clones, strided beyond 6000 per length, then random ones; monitors on the implementation trace: reply list = one reply per accepting replier in connection order, Ready only after all replied, Ready when all replied and woken, a wake after Pending notifies the caller, a send through any clone reaches every connection added before it; non-trivial = a broadcast with at least two accepting repliers completing after a Pending poll, or a read through a clone other than the first; distinct by hash"}],
        "assumptions": [
            "operations on the task set (wake of a sub-task, take_scheduled, discard) are atomic in M-BCAST: the lock-free Treiber stack inside TaskSet and the DiatomicWaker are not modelled at instruction granularity (the repository's loom tests cover that); wake-ups are injected between polls, not during a poll",
            "CachedRwLock is modelled with a sequentially consistent epoch and an atomic write (the Mutex makes writes atomic; the Relaxed epoch load is outside the model)",
            "repliers are scripted: what a replier computes from its request is the harness's choice; the model shows which reply ends up where",
            "completion (broadcast_completes_once_all_have_replied) is proved for wake-ups delivered between polls; a wake-up racing with the poll loop itself is inside TaskSet/DiatomicWaker, i.e. outside the model",
        ],
        "trusted_base": ["M-BCAST is hand-written from ports/output/broadcaster.rs, util/task_set.rs, util/cached_rw_lock.rs; tied by the `bcast` engine (responses, per-sub-future poll counts, notifications)", "verif hook VQueryBroadcaster (scripted Sender implementation) and VCachedRwLock"],
        "explanation": "theorems one_reply_per_accepting_replier_in_connection_order, replies_come_from_the_repliers, request_is_mapped_per_connection, pending_broadcast_is_woken_by_any_sub_task, broadcast_completes_once_all_have_replied, every_reachable_state_is_well_formed, clones_share_one_connection_list, source_bumps_the_shared_epoch, a_connection_is_never_forgotten",
        "level_text": "Lean 4 invariant proof over the broadcaster state machine for every history of broadcasts, polls, cancellations, replies in any order, spurious and stale wake-ups and partially read reply iterators, any number of repliers: a Ready poll returns exactly one reply per accepting connection, in connection order, each consumed from its own replier during this broadcast (never stale), only after all have replied, and never finds an empty slot; a Pending poll leaves the caller registered so that the next sub-task wake-up notifies it once, and once every missing replier has replied and woken its sub-task the next poll returns Ready; the cached lock returns the shared connection list to every clone after any history; tied to the code by running the real QueryBroadcaster/TaskSet/CachedRwLock/Output clones and the model on identical operation sequences, comparing results, per-sub-future poll counts and notifications",
        "level_note": "trusted: Lean kernel, propext/Classical.choice/Quot.sound, the differential harness, the scripted-sender hook; atomicity of task-set operations and SC epoch are modelling assumptions",
    },
    "C19": {
        "props_module": "NexoVerif.Props.C19",
        "model": "M-DROP (NexoVerif/Model/DropM.lean) with the switches of NexoVerif/Extracted.lean, and M-TASK",
        "engines": [{"name": "net", "rule": NET_RULE + "; for C19 every case drops the real simulation (with its Scheduler handle, addresses and event sources) at a random point of the driver sequence - idle, deadlocked, after a panic / NoRecipient failure, with 0-2 scheduled actions still pending - on the single-threaded and on 2-8 thread executors, on a helper thread with a 20 s watchdog; measured: the drop returns without panicking, every model of the simulation is dropped exactly once (drop-counting models), the balance of message instances (created/cloned minus dropped, counting payload type) is zero after the orphan mailboxes and sinks are dropped too, the process thread count is back to its baseline, no handler runs afterwards; plus nested scenarios (a single-threaded simulation with 0-4 models created and dropped inside a handler of another one with 0-4 idle models, then the outer one dropped); the model side derives the M-DROP ownership state from the M-NET state (blocked senders and served queries become wake-on-drop edges) and runs the drop sequence with the extracted switches; runs that hit the step time-out are excluded as the property says"}],
        "assumptions": [
            "worker threads are joined before the cancellation phase (read from the source: dropMtJoinsThenCancelsInWorker), so nothing runs concurrently with it; the thread-locals LOCAL_WORKER / ACTIVE_TASKS are represented by parameters of the model",
            "models, undelivered messages and mailboxes are owned by task futures (Rust ownership): dropping every future exactly once drops each of them exactly once; the harness measures this on the real code",
            "per-task release (future dropped once, memory freed once when the last handle goes) is the M-TASK theorem of C13, with SC atomics",
            "the switches are extracted by pattern from mt_executor.rs / st_executor.rs; extract.py fails closed (a construct it does not recognise yields false, which breaks source_follows_the_drop_protocol)",
        ],
        "trusted_base": ["M-DROP is hand-written from executor/mt_executor.rs (run_local_worker tail, Executor::drop, CancellableFuture::drop) and executor/st_executor.rs (ExecutorInner::drop); tied by the extracted switches and by the drop measurements of the `net` engine", "extract/extract.py"],
        "explanation": "theorems source_follows_the_drop_protocol, drop_releases_every_future_exactly_once, nothing_runs_and_nothing_is_rescheduled_afterwards, other_executors_are_left_alone, forgetting_the_fast_slot_panics, not_unsetting_active_tasks_leaks_the_outer_task, exCycle_wf, a_task_without_handles_is_gone",
        "level_text": "Lean 4 proof over the ownership model of the executors' drop sequence for any number of tasks, any placement of their Runnables, any wake-on-drop relation between them (tasks waking one another while being dropped): every future is dropped exactly once, no cancel token or Runnable is left, nothing is woken outside a worker context, nothing can be rescheduled afterwards, tasks of other (enclosing) executors are untouched; each switch of the protocol (hand-over of a dying worker's fast slot, ACTIVE_TASKS unset) is shown necessary by a counterexample and is read from the source on every run; tied to the code by dropping real simulations at random points of driver sequences (idle, deadlocked, failed, scheduled actions pending, nested) on 1-8 threads and measuring drop counts, message-instance balance, thread count and post-drop activity",
        "level_note": NET_NOTE + "; the model's prediction for a drop is derived from the M-NET state but is the same for every well-formed state (that is the theorem), so the tie on the outcome is a property monitor on the real code rather than a differential comparison; the tie on the mechanism is the extracted switches",
        "technique": "Lean 4 proof over hand-written model with switches extracted from the source + drop measurements on the real code",
    },
})
